"""C10 — each node's math/text mode is the one implied by the enclosing structure."""
import itertools, random
import docgen, treedump
import parsecommon as PC

PID = 'C10'
PROJECTION = 'modes (full tree dumps incl. in_math_mode / math_mode_delimiter / displaytype / delimiters)'
RULE = ('strict parses: all strings up to length 6 (8) over {$, a, {, }, space, \\(, \\), \\[, \\]} under the default context, '
        'nested math / text-in-math / math-in-text-in-math documents from the grammar (default and custom contexts incl. '
        'per-argument enter/leave-math deltas and math environments), token soups. Non-trivial: the accepted tree contains a '
        'math node or a mode-changing argument / environment.')
EXHAUSTIVE = {'quick': True, 'thorough': True}
ASSUMPTIONS = ['model of the parser stack validated only by this correspondence']
PARTIAL = ['C10_dollars_closing_first_partial, C10_dollars_read_math_partial, C10_dollars_token_partial: the DESIGN statement '
           'C10_dollars (math nodes of the parse of EVERY dollar document = the document\'s formulas, unbounded) is not proved; proved '
           'instead (a) for every input, every continuation and every reachable state: which token a $ is read as (closing inline $ '
           'first inside $..$ even when another $ follows; $$ closes inside $$..$$; outside math $$ opens display and a single $ '
           'inline); (b) C10_dollars_bounded / _two_letters: for ALL strings over {$,a} to length 14 and {$,a,b} to length 9, strict '
           'and tolerant, default context, the parse agrees with an independent reading of the dollar runs (vm_compute sweep, bound '
           'in the statement); (c) the instances $a$$b$ and $$a$$. The oracle checks the same reference on the real code for every '
           'generated string over {$, a}.',
           'C10_dollars_grammar_partial, C10_dollars_math_nodes_partial, C10_dollars_tree_partial (composition with '
           'C02_parse_unparse_partial): for EVERY context and EVERY dollar document of the core document grammar (text runs and '
           'inline $..$ formulas with text bodies, any size) satisfying ok_doc, the parse has exactly one chars node in text mode per '
           'maximal text run and one inline math node ($,$, recorded in text mode) per formula whose body is one chars node in math '
           'mode with delimiter $; the math nodes of the parse are the formulas of the document. Partial w.r.t. DESIGN: the core '
           'grammar has no $$..$$ display item (covered by (a)-(c) above); formula bodies are text only.',
           'C10_dollars_grammar2_partial, C10_dollars_math_nodes2_partial, C10_dollars_tree2_partial (composition with '
           'C02_parse_unparse2_partial, Proofs/Compose2Dollars.v): the same for EVERY dollar document WITH display formulas (text '
           'runs, inline $..$ and display $$..$$ formulas with text bodies, any size) satisfying ok_doc2: one math node per formula, '
           'display flag and delimiters as written ($a$$b$ = two inline formulas and $$a$$ = one display formula are instances, '
           'C10_dollars_two_inline_instance / C10_dollars_one_display_instance). Partial w.r.t. DESIGN only in that formula bodies '
           'are text only (for the recorded modes of arbitrary bodies: C10_modes_grammar2, every document of the extended grammar; '
           'C10_modes_grammar3 / C10_modes_grammar3_tree (composition with C02_parse_unparse3_partial, Proofs/Compose3Modes.v): every '
           'document of the THIRD grammar - the extended one plus paragraph-like whitespace runs in a context without the paragraph '
           'specials, a paragraph break as single-token argument, groups written directly in a delimited argument - every context, '
           'strict and tolerant: the parse succeeds, returns tree_of3 d, and every node records the implied mode. These grammar '
           'theorems are not partial in themselves (C10_modes holds for ALL strings); the grammars only say WHICH tree it is).']
REFUTED = []
CASE_TIMEOUT = 10.0
case_from_desc = PC.case_from_desc
distribution = PC.distribution
MATH_SYMS = ['$', 'a', '{', '}', ' ', '\\(', '\\)', '\\[', '\\]']
DISPLAY = {'$': ('inline', '$'), '\\(': ('inline', '\\)'), '$$': ('display', '$$'), '\\[': ('display', '\\]')}


def gen_cases(seed, tier):
    quick = tier == 'quick'
    rnd = random.Random(seed)
    L = 5 if quick else 6
    cases = []
    for s in docgen.exhaustive(MATH_SYMS, L):
        cases.append(PC.mk_case('default', s, False, 'exhaustive-math'))
    # dollar runs: $a$$b$ (two inline) vs $$a$$ (one display) need 6 symbols
    for s in docgen.exhaustive(['$', 'a'], 8 if quick else 10):
        if len(s) > L:
            cases.append(PC.mk_case('default', s, False, 'exhaustive-dollars'))
    for s in docgen.exhaustive(['$', 'a', ' '], 7 if quick else 8):
        if ' ' in s and '$' in s:
            cases.append(PC.mk_case('default', s, False, 'exhaustive-dollars-spaces'))
    extra = ['\\text', '\\ensuremath', '\\mbox', '\\begin{equation}', '\\end{equation}', '\\begin{align*}', '\\end{align*}',
             '\\frac', '$$', '\\textbf']
    b = _base_sig()
    modal = ['\\' + n for n, sp in sorted(b.macros.items()) if sp['args'][0] == 'std' and any(a['delta'] for a in sp['args'][1])]
    modal_envs = [n for n, sp in sorted(b.envs.items()) if sp['args'][0] == 'std' and sp['body_math'] and not sp['args'][1]]
    for _ in range(1500 if quick else 20000):
        s = docgen.soup(rnd, MATH_SYMS + extra, 2, 12)
        cases.append(PC.mk_case('default', s, False, 'soup'))
    # every macro of the default context with a mode-changing argument, every math environment without arguments:
    # well-formed uses inside and outside formulas
    for m in modal:
        for tmpl in ('$a%s{b $c$ d}e$', '%s{b $c$}', '\\[%s{x}\\]', '\\begin{equation}%s{t}\\end{equation}', '\\ensuremath{%s{u $v$}}'):
            cases.append(PC.mk_case('default', tmpl % m, False, 'declared-modes'))
    for e in modal_envs:
        for tmpl in ('\\begin{%s}a\\text{b}\\end{%s}', 'x $y\\begin{%s}z\\end{%s}$', '\\textbf{\\begin{%s}w\\end{%s}}'):
            cases.append(PC.mk_case('default', tmpl % (e, e), False, 'declared-modes'))
    cextra = ['\\mt', '\\mm', '\\mx', '\\my', '\\ma', '\\begin{em}', '\\end{em}', '\\begin{eb}', '\\end{eb}', '[', ']', '$$', '!!']
    for _ in range(1000 if quick else 12000):
        s = docgen.soup(rnd, MATH_SYMS + cextra, 2, 12)
        cases.append(PC.mk_case('custom', s, False, 'soup'))
    for ctx in ('default', 'custom'):
        for _ in range(1000 if quick else 12000):
            cases.append(PC.mk_case(ctx, docgen.gen_doc(rnd, ctx), False, 'doc'))
    for c in cases:
        s = c['desc']['s']
        c['nt'] = any(x in s for x in ('$', '\\(', '\\[', '\\text', '\\ensuremath', 'equation', 'align', '\\mt', '\\mm', '{em}'))
    # custom math delimiters (parsing-state configuration; real code only: the parse entries of the model start
    # from the walker's default state): documents written as an alternation of text and formulas
    for _ in range(300 if quick else 4000):
        cases.append(_delim_case(rnd))
    cases += [c for c in PC.state_stream(random.Random(seed + 80), 500 if quick else 8000, modes=(False,))]
    # chained parsing-state deltas on arguments and environment bodies (real code only)
    for s in docgen.exhaustive(docgen.SYM_CHAINED, 3):
        if '\\c' in s:
            cases.append(PC.mk_case('chained', s, False, 'chained-deltas'))
    for _ in range(400 if quick else 5000):
        cases.append(PC.mk_case('chained', docgen.soup(rnd, docgen.SYM_CHAINED, 2, 9), False, 'chained-deltas'))
    cases += PC.twin_cases(random.Random(seed + 82), 250 if quick else 4000, tolerant=(False, True))
    # an argument read with formulas switched OFF (the url of \\link{url}{text}) inside a formula: the formula's own
    # delimiters are ordinary characters there, the formula ends where it was closed (real code only)
    r4 = random.Random(seed + 84)
    for op, cl in (('$', '$'), ('$$', '$$'), ('\\(', '\\)'), ('\\[', '\\]')):
        for u in (cl, 'x' + cl + 'y', cl + cl, op + 'z' + cl, 'p' + op, '$', '$$', 'a'):
            for head, tail in (('a', 'c'), ('', ''), ('{', '}'), ('\\plain{', '}')):
                s = op + head + '\\link{' + u + '}{b}' + tail + cl
                cases.append({'wire': [999], 'nt': True,
                              'desc': {'ctx': 'chained', 's': s, 'tolerant': False, 'origin': 'math-off-argument'}})
    # definitions made while parsing (\\dm{name} defines \\name from there on; real code only): whatever number of
    # them precedes it, every environment and every macro they do not define is still looked up as configured
    r3 = random.Random(seed + 83)
    dsyms = MATH_SYMS + extra + ['\\dm{zq}', '\\dm{zr}', '\\dm{zs}', '\\zq{a}', '\\dm{zq}', '{', '}']
    for _ in range(500 if quick else 8000):
        k = r3.randint(0, 5)
        s = ''.join(r3.choice(['\\dm{zq}', '\\dm{zr}', '\\dm{zs}', '\\dm{zt} ']) for _ in range(k))
        if r3.random() < 0.3:
            s += docgen.soup(r3, dsyms, 2, 10)
        else:           # well-formed pieces, definitions in between and inside groups / environments
            frag = ['\\begin{equation}a\\end{equation}', '\\begin{align*}x\\end{align*}', '$a$', '\\textbf{a}', '\\zq{a}', 'a', ' ',
                    '\\ensuremath{a}', '\\text{a}', '{\\dm{zs}\\zs{a}}', '\\[a\\]', '\\dm{zr}', '\\dm{zq}', '\\zr{$b$}',
                    '\\begin{itemize}\\dm{zt}\\dm{zs}\\begin{equation}c\\end{equation}\\end{itemize}', '$\\dm{zq}\\dm{zr}\\text{t $u$}$',
                    '\\begin{center}\\dm{zq}\\end{center}', '\\begin{zzunknown}d\\end{zzunknown}', '\\zzunk']
            s += ''.join(r3.choice(frag) for _ in range(r3.randint(1, 6)))
        cases.append(PC.mk_case('defs', s, False, 'definitions'))     # strict: recovery nodes carry no specification
    return cases


DELIM_SETS = [
    {'inline': [['$', '$'], ['<<', '>>']], 'display': [['$$', '$$'], ['\\[', '\\]']]},
    {'inline': [['$`', '`$'], ['\\(', '\\)']], 'display': [['$$', '$$']]},
    {'inline': [['$', '$']], 'display': [['[[', ']]'], ['$$', '$$']]},
    {'inline': [['|', '!'], ['$', '$']], 'display': [['\\[', '\\]']]},
]


def _delim_case(rnd):
    ds = rnd.choice(DELIM_SETS)
    parts, expect = [], []
    for _ in range(rnd.randint(1, 5)):
        if rnd.random() < 0.5:
            t = rnd.choice(['a', 'b c', ' ', 'word ', 'x.y'])
            parts.append(t)
            if expect and expect[-1][0] == 'chars':
                expect[-1] = ('chars', expect[-1][1] + t)
            else:
                expect.append(('chars', t))
        else:
            kind = rnd.choice(['inline', 'display'])
            o, cl = rnd.choice(ds[kind])
            body = rnd.choice(['x', 'x y', 'a+b', ' n '])
            parts.append(o + body + cl)
            expect.append((kind, body))
    s = ''.join(parts)
    return {'wire': [999], 'nt': True,
            'desc': {'ctx': 'default', 's': s, 'tolerant': False, 'origin': 'custom-delimiters', 'delims': ds,
                     'expect': [list(e) for e in expect]}}


def _oracle_delims(d):
    from pylatexenc.latexwalker import LatexWalker, LatexWalkerParseError
    from pylatexenc.latexnodes.parsers import LatexGeneralNodesParser
    s, ds = d['s'], d['delims']
    # two adjacent formulas with the same one-character delimiter, or text ending where a delimiter starts, are
    # ambiguous by construction: only unambiguous layouts are judged
    w = LatexWalker(s, tolerant_parsing=False)
    ps = w.make_parsing_state(latex_inline_math_delimiters=[tuple(x) for x in ds['inline']],
                              latex_display_math_delimiters=[tuple(x) for x in ds['display']])
    try:
        nl, _ = w.parse_content(LatexGeneralNodesParser(), parsing_state=ps)
    except LatexWalkerParseError as e:
        return ('well-formed-custom-delimiter-document-rejected', {'error': str(e)[:160], 'expected': d['expect']})
    except Exception as e:
        return ('strict-raised-%s' % type(e).__name__, {'message': str(e)[:160]})
    table = {o: ('inline', c) for o, c in ds['inline']}
    table.update({o: ('display', c) for o, c in ds['display']})
    res = _check(nl, (False, None), [], table)
    if res:
        return res
    got = []
    for n in nl:
        if treedump.kind(n) == '$':
            got.append([n.displaytype, s[n.pos + len(n.delimiters[0]):n.pos_end - len(n.delimiters[1])]])
        else:
            got.append(['chars', n.latex_verbatim()])
    if got != d['expect']:
        return ('custom-delimiter-formulas-split-wrongly', {'expected': d['expect'], 'observed': got})
    return None


def impl(c):
    if c['desc'].get('origin') == 'custom-delimiters':
        return 'BADIN'
    return PC.impl_parse(c)


def _mode(n):
    ps = n.parsing_state
    return (bool(ps.in_math_mode), ps.math_mode_delimiter)


def _delta_mode(d, mode):
    """the mode a parsing-state delta implies, given the mode it is applied in"""
    from pylatexenc.latexnodes import (ParsingStateDeltaEnterMathMode, ParsingStateDeltaLeaveMathMode,
                                       ParsingStateDeltaChained)
    if isinstance(d, ParsingStateDeltaChained):
        for x in d.parsing_state_deltas:
            mode = _delta_mode(x, mode)
        return mode
    if isinstance(d, ParsingStateDeltaEnterMathMode):
        return (True, None)
    if isinstance(d, ParsingStateDeltaLeaveMathMode):
        return (False, None)
    return mode


_BASE = [None]


def _base_sig():
    import docast
    if _BASE[0] is None:
        _BASE[0] = docast.Sig(docgen.baseline_default_cx())
    return _BASE[0]


_USE_BASE = [False]


def _recorded_modes(sp, mode):
    if sp is None or sp['args'][0] != 'std':
        return None
    return [{0: mode, 1: (True, None), 2: (False, None)}[a['delta']] for a in sp['args'][1]]


def _arg_modes(spec, mode):
    name = getattr(spec, 'macroname', None)
    if _USE_BASE[0]:
        # default context: what the arguments of a declared macro / environment mean is taken from the RECORDED
        # declarations (baseline_walkerctx.json), not from the specification object the parse attached to the node
        b = _base_sig()
        ename = getattr(spec, 'environmentname', None)
        rec = b.macros.get(name) if name is not None and ename is None else (b.envs.get(ename) if ename is not None else None)
        if rec is not None:
            r = _recorded_modes(rec, mode)
            if r is not None:
                return r
    if name in docgen.CHAINED_EFFECTS and _chained_db_spec(spec):
        return [{'T': (False, None), 'M': (True, None), '=': mode}[x] for x in docgen.CHAINED_EFFECTS[name]]
    return [_delta_mode(getattr(a, 'parsing_state_delta', None), mode)
            for a in (getattr(spec, 'arguments_spec_list', None) or [])]


def _chained_db_spec(spec):
    """is it a specification object of docgen's 'chained' database (whose meaning is tabulated in docgen)?"""
    db = docgen._ctx_cache.get('chained')
    if db is None:
        return False
    name = getattr(spec, 'macroname', None) or getattr(spec, 'environmentname', None)
    for getter in (db.get_macro_spec, db.get_environment_spec):
        try:
            if getter(name) is spec:
                return True
        except Exception:
            pass
    return False


def _check(n, mode, path, table=None):
    """every node reachable from n must carry the mode implied by its ancestors"""
    k = treedump.kind(n)
    if k is None:
        return None
    if k == 'L':
        for j, x in enumerate(n if isinstance(n, (list, tuple)) else n.nodelist):
            r = _check(x, mode, path + [j], table)
            if r:
                return r
        return None
    if _mode(n) != mode:
        return ('node-mode-not-implied', {'node': treedump.dump(n)[:200], 'expected': list(mode), 'path': path})
    if k == '$':
        op = n.delimiters[0]
        tb = DISPLAY if table is None else table
        if op not in tb:
            return ('math-unknown-delimiter', {'node': treedump.dump(n)[:200]})
        dt, cl = tb[op]
        if n.displaytype != dt or n.delimiters[1] != cl:
            return ('math-displaytype-or-closing-delimiter', {'node': treedump.dump(n)[:200]})
        return _check(n.nodelist, (True, op), path + ['body'], table)
    if k == 'G':
        return _check(n.nodelist, mode, path + ['body'], table)
    pa = getattr(n, 'nodeargd', None)
    token_arg = bool(path) and isinstance(path[-1], str) and path[-1].startswith('arg')   # a macro standing AS an argument
    if _USE_BASE[0] and k in ('M', 'E') and not token_arg:                                 # is one token: its own arguments are not read
        b = _base_sig()
        rec = b.macros.get(n.macroname) if k == 'M' else b.envs.get(n.environmentname)
        if rec is not None and rec['args'][0] == 'std' and getattr(n, 'spec', None) is not None:
            have = len(pa.argnlist) if pa is not None and pa.argnlist else 0
            if have != len(rec['args'][1]):
                return ('node-arguments-differ-from-recorded-declaration', {
                    'node': treedump.dump(n)[:200], 'recorded_argument_slots': len(rec['args'][1]), 'observed': have})
    if pa is not None and pa.argnlist:
        ams = _arg_modes(n.spec, mode) if getattr(n, 'spec', None) is not None else []
        for j, a in enumerate(pa.argnlist):
            m = ams[j] if j < len(ams) else mode
            r = _check(a, m, path + ['arg%d' % j], table)
            if r:
                return r
    if k == 'E':
        if getattr(n.spec, 'environmentname', None) in docgen.CHAINED_EFFECTS and _chained_db_spec(n.spec):
            bm = (True, None) if docgen.CHAINED_EFFECTS[n.spec.environmentname] == 'M' else mode
        elif _USE_BASE[0] and n.environmentname in _base_sig().envs and _base_sig().envs[n.environmentname]['args'][0] == 'std':
            bm = (True, None) if _base_sig().envs[n.environmentname]['body_math'] else mode
        else:
            bm = (True, None) if getattr(n.spec, 'is_math_mode', None) else \
                _delta_mode(getattr(n.spec, 'body_parsing_state_delta', None), mode)
        return _check(n.nodelist, bm, path + ['body'], table)
    return None


def _check_lookups(nl, db, defined=('zq', 'zr', 'zs', 'zt')):
    """every environment node, and every macro node whose name no definition in the document introduces, carries the
    specification object the configured database gives for its name"""
    def walk(n):
        k = treedump.kind(n)
        if k is None:
            return None
        if k == 'L':
            for x in (n if isinstance(n, (list, tuple)) else n.nodelist):
                r = walk(x)
                if r:
                    return r
            return None
        if k == 'E':
            if n.spec is not db.get_environment_spec(n.environmentname):
                return ('environment-not-looked-up-as-configured', {'node': treedump.dump(n)[:200],
                                                                    'got_spec': repr(n.spec)[:120]})
        if k == 'M' and n.macroname not in defined:
            if n.spec is not db.get_macro_spec(n.macroname):
                return ('macro-not-looked-up-as-configured', {'node': treedump.dump(n)[:200], 'got_spec': repr(n.spec)[:120]})
        pa = getattr(n, 'nodeargd', None)
        if pa is not None and pa.argnlist:
            for a in pa.argnlist:
                r = walk(a)
                if r:
                    return r
        if hasattr(n, 'nodelist'):
            return walk(n.nodelist)
        return None
    return walk(nl)


def _dollar_reference(s):
    """independent reading of strings over {$, a}: list of ('inline'|'display'|'chars', text) or None if unbalanced"""
    out = []
    i = 0
    n = len(s)
    while i < n:
        if s[i] != '$':
            j = i
            while j < n and s[j] != '$':
                j += 1
            out.append(('chars', s[i:j]))
            i = j
            continue
        if s.startswith('$$', i):
            j = s.find('$$', i + 2)
            body = s[i + 2:j] if j >= 0 else None
            if body is None or '$' in body:
                return None                      # nested / unbalanced: outside this reference
            out.append(('display', body))
            i = j + 2
        else:
            j = s.find('$', i + 1)
            if j < 0:
                return None
            out.append(('inline', s[i + 1:j]))
            i = j + 1
    return out


def oracle(c):
    d = c['desc']
    if d.get('origin') == 'custom-delimiters':
        return _oracle_delims(d)
    if d.get('origin') == 'chained-twin':
        return PC.oracle_twin(d)
    if d.get('origin') == 'math-off-argument':
        r = PC.real_parse(d)
        if r[0] != 'ok':
            return ('well-formed-document-rejected', {'error': str(r[1])[:200]})
        top = [n for n in r[1]]
        if len(top) != 1 or treedump.kind(top[0]) != '$' or (top[0].pos, top[0].pos_end) != (0, len(d['s'])):
            return ('formula-does-not-end-where-it-was-closed', {'tree': treedump.dump(r[1])[:400]})
        return _check(r[1], (False, None), [], None)
    _USE_BASE[0] = d['ctx'] in ('default', 'defs')
    r = PC.real_parse(d)
    if r[0] != 'ok' or r[1] is None:
        s = d['s']
        if r[0] == 'err' and s and set(s) <= {'$', 'a', ' '} and d['ctx'] == 'default' and not d.get('state'):
            ref = _dollar_reference(s)
            if ref is not None and all(k == 'chars' or t.strip() for k, t in ref):
                return ('well-formed-dollar-document-rejected', {'expected': ref, 'error_pos': r[1].pos})
        return None
    if d.get('origin') == 'definitions':
        bad = _check_lookups(r[1], docgen.make_db('defs'))
        if bad:
            return bad
    st = d.get('state') or {}
    table = None
    if 'latex_inline_math_delimiters' in st or 'latex_display_math_delimiters' in st:
        table = {o: ('inline', c) for o, c in st.get('latex_inline_math_delimiters', [['$', '$'], ['\\(', '\\)']])}
        table.update({o: ('display', c) for o, c in st.get('latex_display_math_delimiters', [['$$', '$$'], ['\\[', '\\]']])})
    start = (bool(st.get('in_math_mode', False)), st.get('math_mode_delimiter') if st.get('in_math_mode') else None)
    res = _check(r[1], start, [], table)
    if res:
        return res
    if st:
        return None
    s = d['s']
    if s and set(s) <= {'$', 'a', ' '}:
        ref = _dollar_reference(s)
        if ref is not None:
            got = []
            for n in r[1]:
                k = treedump.kind(n)
                if k == '$':
                    got.append((n.displaytype, s[n.pos + len(n.delimiters[0]):n.pos_end - len(n.delimiters[1])]))
                else:
                    got.append(('chars', n.latex_verbatim()))
            if got != ref:
                return ('dollar-runs-split-wrongly', {'expected': ref, 'observed': got})
    return None
