"""C16 — the pylatexenc-2 compatible API gives the same results as the new parsers.

Correspondence: the real legacy methods vs. the model coq/Parse/Legacy.v (built on
the frozen parser model) at EVERY start position of each string.
Oracle (no model): each legacy result vs. the equivalent pylatexenc-3 parser object
run through LatexWalker.parse_content on the real code, modulo the documented
normalisations (notes/C16.md):
  N1  get_latex_expression sets nodeargd=None on macro/environment/specials results;
  N2  get_latex_expression swallows the "unexpected closing brace" error unless
      strict_braces is true, and returns a dummy empty chars node at `pos` when there
      is no node and (tolerant or strict_braces is False)  [pylatexenc-2 behaviour,
      documented in the code];
  N3  the legacy methods return (None, pos, 0) / None where parse_content returns None;
  N4  a token parse error raised by the LOOK-AHEAD (peek_token_or_none) of the pylatexenc-3
      arguments parser is not attributed to the arguments by the legacy algorithm when
      optional_arg_no_space=True makes it skip an optional argument without reading a token.
"""
import random, collections, warnings, itertools
import docgen, treedump, tokharness
from common import w_str, w_bool, w_opt, w_list, show_opt, show_list, show_str

PID = 'C16'
PROJECTION = 'legacy-tuples (node dump, pos, len | exception class + pos) at every start position'
RULE = ('token soups, generated documents (docgen, default and custom context) and argument-shaped strings x EVERY start '
        'position 0..len x legacy call variants: get_token (include_brace_chars x brackets_are_chars x environments), '
        'get_latex_nodes (stop_upon_closing_brace as 1 char, as pair, as 2-char string, other bracket types; '
        'stop_upon_end_environment; stop_upon_closing_mathmode; read_max_nodes 0..3; combinations), get_latex_expression '
        '(strict_braces True/False/None), get_latex_braced_group (brace types, pairs, invalid), get_latex_environment '
        '(name None / matching / other / empty), get_latex_maybe_optional_arg; strict and tolerant walkers; default and '
        'in-math parsing state; MacroStandardArgsParser.parse_args for ALL 121 argument strings over {*,[,{} up to length 4 '
        '(x optional_arg_no_space x args_math_mode); all 121 strings through each of 8 spellings + std_macro(optarg,numargs) + 3 environment spellings with a pylatexenc-2 parser object (declared math body, inner_parsing_state), trees compared with modes. '
        'Non-trivial: the string has an active character and length >= 3, or an argument string of length >= 1.')
EXHAUSTIVE = {'quick': True, 'thorough': True}
ASSUMPTIONS = ['model of the parser stack (frozen, validated separately) and of the legacy shims validated only by this correspondence',
               'stop_upon_closing_brace restricted to the documented closing braces } ] ) > or an explicit pair of single characters',
               'custom parsing_state arguments restricted to the walker default state and its in_math_mode=True sub-context',
               'argument kinds outside the parser model (e{..}, AnyDelimited*) do not occur in the contexts used']
PARTIAL = []
REFUTED = []
CASE_TIMEOUT = 20.0
ALWAYS_SEARCH = False

EXN = {'ReachedStoppingCondition': 1, 'KeyError': 2, 'TypeError': 3, 'AttributeError': 4, 'ValueError': 5,
       'LatexWalkerError': 6}
ARG_STRINGS = [''.join(t) for n in range(5) for t in itertools.product('*[{', repeat=n)]
SPELLINGS = ['args_parser=str', 'positional str', 'std_macro(str)', 'std_macro(None,str)', 'std_environment(str)',
             'args_parser=MacroStandardArgsParser(str)', 'args_parser=MacroStandardArgsParser(argspec=str)',
             'positional MacroStandardArgsParser(str)', 'std_macro(optarg,numargs)',
             'EnvironmentSpec(args_parser=MacroStandardArgsParser(str), is_math_mode=True)',
             'EnvironmentSpec(positional MacroStandardArgsParser(str), is_math_mode=True)',
             'EnvironmentSpec(args_parser=<pylatexenc-2 parser returning inner_parsing_state>)']
MODEL_SPELLING = {9: 5, 10: 7, 11: 5}       # which parser object the spec ends up with is the same question
TRI = {None: 0, True: 1, False: 2}

# ---------------------------------------------------------------------------------------------
# variants

TOKEN_INCL = [None, [], [['[', ']']], [['<', '>'], ['(', ')']]]
NODES_BRACE = [None, '}', ']', ')', '>', ['{', '}'], ['[', ']'], ['<', '>'], ['|', '!'], '[]', '()']
NODES_ENV = [None, 'e', 'itemize', 'ea', 'zz', 'equation']
NODES_MATH = [None, '$', '$$', '\\)', '\\]']
GROUP_BT = ['{', '[', '(', '<', ['<', '>'], ['|', '!'], ['{', '}'], '()', 'x', 'abc', '']
ENV_NAMES = [None, 'itemize', 'e', 'ea', 'equation', '', 'zz', 'em']


def _pair_str(b):
    return b if isinstance(b, str) else ''.join(b)


def _py_brace(b):
    return b if (b is None or isinstance(b, str)) else tuple(b)


def _header(d):
    cx = [0] if d['ctx'] == 'default' else [1] + docgen.ctx_wire(d['ctx'])
    return cx + w_str(d['s']) + w_bool(d['tolerant']) + [d.get('psv', 0)]


def mk_case(d):
    sub = d['sub']
    v = d.get('v', {})
    if sub == 6:
        if d['spelling'] == 8:
            wire = [1606, 8, TRI[d['optarg']], d['n']]
        else:
            wire = [1606, MODEL_SPELLING.get(d['spelling'], d['spelling'])] + w_str(d['a'])
        return {'wire': wire, 'desc': d, 'nt': len(d.get('a', 'x')) >= 1}
    h = _header(d)
    if sub == 0:
        w = w_opt(v['incl'], lambda l: w_list(l, lambda p: w_str(p[0]) + w_str(p[1]))) + [TRI[v['bac']], TRI[v['envs']]]
    elif sub == 1:
        w = (w_opt(v['brace'], lambda b: w_str(_pair_str(b))) + w_opt(v['env'], w_str) + w_opt(v['math'], w_str)
             + w_opt(v['max']))
    elif sub == 2:
        w = [TRI[v['sb']]]
    elif sub == 3:
        w = w_str(_pair_str(v['bt']))
    elif sub == 4:
        w = w_opt(v['name'], w_str)
    elif sub == 5:
        w = []
    elif sub == 7:
        w = w_str(v['a']) + w_bool(v['noopt']) + w_opt(v['amm'], lambda l: w_list(l, lambda x: [TRI[x]]))
    else:
        raise ValueError(sub)
    s = d['s']
    nt = (sum(1 for ch in s if ch in '\\{$[%*') >= 1 and len(s) >= 3) or (sub == 7 and len(v['a']) >= 1 and len(s) >= 1)
    return {'wire': [1600 + sub] + h + w, 'desc': d, 'nt': nt}


def case_from_desc(d):
    return mk_case(d)


ARG_PIECES = ['*', '[a]', '{b}', ' ', '\n', 'x', '\\m', '{', '}', '[', ']', '%c\n', '$', '~', '\n\n', '[a{]}]', '{{c}}',
              ' *', '\\begin', '\\(', '\\\\', '[', '{', '*']


def arg_doc(rnd):
    return ''.join(rnd.choice(ARG_PIECES) for _ in range(rnd.randint(0, 8)))


HAND = ['', 'a', ' {a} b', '[x]y', ' [x]y', 'a}b', 'a]b', '{a}{b}', '\\begin{e}x\\end{e}y', ' \\begin{itemize}\\item a\\end{itemize}',
        'x$y$z', 'a\\)b', 'a$$b', '(a)b', '<a>b', '|a!b', '\\textbf{a}b', '\\textbf\\emph', '%c\n{a}', '  % c\n x', '~a', '\\(a\\)',
        'a\\end{e}b', 'a\\end{itemize}', '\\begin{e}', '\\begin', '{', '[', 'abc def', 'ab\n\ncd', '*x', ' *', '\\foo', '{a', '[a',
        '\\begin{equation}x\\end{equation}', '\\begin{ea}[o]{a}x\\end{ea}', '\\ma*[o]{a}', '!![o]{a}', '\\', 'a\\']


def rand_variant(rnd, sub):
    if sub == 0:
        return {'incl': rnd.choice(TOKEN_INCL), 'bac': rnd.choice([None, None, True, False]),
                'envs': rnd.choice([True, True, False, None])}
    if sub == 1:
        k = rnd.random()
        v = {'brace': None, 'env': None, 'math': None, 'max': None}
        if k < 0.35:
            v['brace'] = rnd.choice(NODES_BRACE[1:])
        elif k < 0.5:
            v['env'] = rnd.choice(NODES_ENV[1:])
        elif k < 0.65:
            v['math'] = rnd.choice(NODES_MATH[1:])
        elif k < 0.85:
            v['max'] = rnd.choice([0, 1, 1, 2, 3])
        elif k < 0.95:
            v['brace'] = rnd.choice(NODES_BRACE)
            v['env'] = rnd.choice(NODES_ENV)
            v['math'] = rnd.choice(NODES_MATH)
            v['max'] = rnd.choice([None, 1, 2, 3])
        return v
    if sub == 2:
        return {'sb': rnd.choice([None, True, False])}
    if sub == 3:
        return {'bt': rnd.choice(GROUP_BT[:7] * 3 + GROUP_BT)}
    if sub == 4:
        return {'name': rnd.choice(ENV_NAMES)}
    if sub == 5:
        return {}
    if sub == 7:
        a = rnd.choice(ARG_STRINGS)
        amm = None
        if rnd.random() < 0.25:
            amm = [rnd.choice([None, True, False]) for _ in a]
        return {'a': a, 'noopt': rnd.random() < 0.3, 'amm': amm}
    raise ValueError(sub)


def gen_cases(seed, tier):
    rnd = random.Random(seed + 16)
    quick = tier == 'quick'
    n_str = 170 if quick else 1500
    cases = []
    strings = []
    for ctx in ('default', 'custom'):
        syms = docgen.symbols_for(ctx)
        for s in HAND:
            strings.append((ctx, s, 'hand'))
        for _ in range(n_str):
            strings.append((ctx, docgen.soup(rnd, syms, 1, 10), 'soup'))
        for _ in range(n_str):
            strings.append((ctx, docgen.gen_doc(rnd, ctx), 'doc'))
        for _ in range(n_str // 2):
            strings.append((ctx, docgen.inject_fault(rnd, docgen.gen_doc(rnd, ctx)), 'fault'))
    for ctx, s, origin in strings:
        if len(s) > 70:
            continue
        for tol in (False, True):
            for sub in (0, 1, 1, 2, 3, 4, 5):
                d = {'sub': sub, 'ctx': ctx, 's': s, 'tolerant': tol, 'psv': 1 if rnd.random() < 0.15 else 0,
                     'origin': origin, 'v': rand_variant(rnd, sub)}
                cases.append(mk_case(d))
    # hand strings x ALL variants of the small variant spaces
    for ctx in ('default', 'custom'):
        for s in HAND:
            for tol in (False, True):
                for sb in (None, True, False):
                    cases.append(mk_case({'sub': 2, 'ctx': ctx, 's': s, 'tolerant': tol, 'psv': 0, 'origin': 'hand',
                                          'v': {'sb': sb}}))
                for bt in GROUP_BT:
                    cases.append(mk_case({'sub': 3, 'ctx': ctx, 's': s, 'tolerant': tol, 'psv': 0, 'origin': 'hand',
                                          'v': {'bt': bt}}))
                for b in NODES_BRACE[1:]:
                    cases.append(mk_case({'sub': 1, 'ctx': ctx, 's': s, 'tolerant': tol, 'psv': 0, 'origin': 'hand',
                                          'v': {'brace': b, 'env': None, 'math': None, 'max': None}}))
                for mx in (0, 1, 2, 3):
                    cases.append(mk_case({'sub': 1, 'ctx': ctx, 's': s, 'tolerant': tol, 'psv': 0, 'origin': 'hand',
                                          'v': {'brace': None, 'env': None, 'math': None, 'max': mx}}))
    # the legacy argument algorithm: every argument string, argument-shaped strings and soups
    per = 4 if quick else 30
    for a in ARG_STRINGS:
        for k in range(per):
            ctx = 'default' if k % 2 == 0 else 'custom'
            r = rnd.random()
            s = arg_doc(rnd) if r < 0.7 else (docgen.soup(rnd, docgen.symbols_for(ctx), 1, 8) if r < 0.85 else rnd.choice(HAND))
            if len(s) > 70:
                continue
            amm = None
            if rnd.random() < 0.2 and a:
                amm = [rnd.choice([None, True, False]) for _ in a]
            for tol in (False, True):
                cases.append(mk_case({'sub': 7, 'ctx': ctx, 's': s, 'tolerant': tol, 'psv': 1 if rnd.random() < 0.15 else 0,
                                      'origin': 'args', 'v': {'a': a, 'noopt': rnd.random() < 0.3, 'amm': amm}}))
    # whitespace other than blank / tab / CR / LF in front of an optional argument (str.isspace is the notion of
    # whitespace of the tokenizer and of both arguments parsers), with and without optional_arg_no_space
    for ws in ('\x0c', '\x0b', '\x1c', '\x85', '\xa0', '\u2003', '\u3000', ' \x0c', '\t'):
        for a, s in (('{[', '{a}' + ws + '[b]c'), ('*[{', '*' + ws + '[o]' + ws + '{m}'), ('[{', ws + '[o]{m}'), ('[', ws + '[o] x')):
            for noopt in (True, False):
                for tol in (False, True):
                    cases.append(mk_case({'sub': 7, 'ctx': 'default', 's': s, 'tolerant': tol, 'psv': 0, 'origin': 'args-unicode-space',
                                          'v': {'a': a, 'noopt': noopt, 'amm': None}}))
    cases.append(mk_case({'sub': 7, 'ctx': 'default', 's': 'x', 'tolerant': False, 'psv': 0, 'origin': 'args',
                          'v': {'a': '{{', 'noopt': False, 'amm': [None]}}))          # ValueError
    # spellings
    for a in ARG_STRINGS:
        for sp in range(8):
            cases.append(mk_case({'sub': 6, 'spelling': sp, 'a': a, 'origin': 'spelling'}))
        for sp in (9, 10, 11):
            cases.append(mk_case({'sub': 6, 'spelling': sp, 'a': a, 'origin': 'spelling-env'}))
    for o in (None, True, False):
        for n in range(5):
            cases.append(mk_case({'sub': 6, 'spelling': 8, 'optarg': o, 'n': n, 'origin': 'spelling'}))
    return cases


# ---------------------------------------------------------------------------------------------
# the real code

def _walker(d):
    from pylatexenc.latexwalker import LatexWalker
    db = docgen.make_db(d['ctx'])
    kw = {} if db is None else {'latex_context': db}
    return LatexWalker(d['s'], tolerant_parsing=d['tolerant'], **kw)


def _state(w, d):
    ps = w.make_parsing_state()
    if d.get('psv', 0) == 1:
        ps = ps.sub_context(in_math_mode=True)
    return ps


def _outcome(fn, show):
    from pylatexenc.latexwalker import LatexWalkerParseError
    from pylatexenc.latexnodes import LatexWalkerEndOfStream
    try:
        r = fn()
    except LatexWalkerParseError as e:
        return 'err ' + ('-' if e.pos is None else str(e.pos))
    except LatexWalkerEndOfStream:
        return 'eos'
    except RecursionError:
        raise
    except Exception as e:
        n = type(e).__name__
        return 'exn ' + (str(EXN[n]) if n in EXN else '?' + n)
    return show(r)


def _show_triple(t):
    n, p, l = t
    return 'ok %s@%s+%s' % (treedump.dump(n), show_opt(p), show_opt(l))


def _show_otriple(t):
    return 'none' if t is None else _show_triple(t)


def make_legacy_obj(a, noopt=False, amm=None, kw=False):
    from pylatexenc.macrospec import MacroStandardArgsParser
    if kw:
        return MacroStandardArgsParser(argspec=a, optional_arg_no_space=noopt, args_math_mode=amm)
    return MacroStandardArgsParser(a, optional_arg_no_space=noopt, args_math_mode=amm)


def legacy_call(w, ps, d, pos):
    """the legacy call of a case at one position -> zero-argument callable, show function"""
    sub, v = d['sub'], d.get('v', {})
    if sub == 0:
        kw = {}
        if v['bac'] is not None:
            kw['brackets_are_chars'] = v['bac']
        incl = None if v['incl'] is None else [tuple(p) for p in v['incl']]
        return (lambda: w.get_token(pos, include_brace_chars=incl, environments=v['envs'], parsing_state=ps, **kw),
                tokharness.dump_token)
    if sub == 1:
        return (lambda: w.get_latex_nodes(pos, stop_upon_closing_brace=_py_brace(v['brace']),
                                          stop_upon_end_environment=v['env'], stop_upon_closing_mathmode=v['math'],
                                          read_max_nodes=v['max'], parsing_state=ps), _show_triple)
    if sub == 2:
        return (lambda: w.get_latex_expression(pos, strict_braces=v['sb'], parsing_state=ps), _show_triple)
    if sub == 3:
        return (lambda: w.get_latex_braced_group(pos, brace_type=_py_brace(v['bt']), parsing_state=ps), _show_triple)
    if sub == 4:
        return (lambda: w.get_latex_environment(pos, environmentname=v['name'], parsing_state=ps), _show_triple)
    if sub == 5:
        return (lambda: w.get_latex_maybe_optional_arg(pos, parsing_state=ps), _show_otriple)
    if sub == 7:
        def go():
            ap = make_legacy_obj(v['a'], v['noopt'], v['amm'])
            parsed, p0, ln = ap.parse_args(w, pos, parsing_state=ps)
            assert p0 == pos
            return parsed.argnlist, pos + ln
        return (go, lambda r: 'ok [%s]@%d' % (','.join(treedump.dump(x) for x in r[0]), r[1]))
    raise ValueError(sub)


def build_spec(sp, a, name='foo'):
    from pylatexenc.macrospec import MacroSpec, std_macro, std_environment
    if sp == 0:
        return MacroSpec(name, args_parser=a)
    if sp == 1:
        return MacroSpec(name, a)
    if sp == 2:
        return std_macro(name, a)
    if sp == 3:
        return std_macro(name, None, a)
    if sp == 4:
        return std_environment(name, a)
    if sp == 5:
        return MacroSpec(name, args_parser=make_legacy_obj(a))
    if sp == 6:
        return MacroSpec(name, args_parser=make_legacy_obj(a, kw=True))
    if sp == 7:
        return MacroSpec(name, make_legacy_obj(a))
    from pylatexenc.macrospec import EnvironmentSpec
    if sp == 9:
        return EnvironmentSpec(name, args_parser=make_legacy_obj(a), is_math_mode=True)
    if sp == 10:
        return EnvironmentSpec(name, make_legacy_obj(a), is_math_mode=True)
    if sp == 11:
        return EnvironmentSpec(name, args_parser=_inner_state_parser(a))
    raise ValueError(sp)


def _inner_state_parser(a):
    """the pylatexenc-2 protocol: parse_args may return a fourth element with 'inner_parsing_state'"""
    from pylatexenc.macrospec import MacroStandardArgsParser

    class InnerMath(MacroStandardArgsParser):
        def parse_args(self, w, pos, parsing_state=None):
            r = MacroStandardArgsParser.parse_args(self, w, pos, parsing_state=parsing_state)
            return r[0], r[1], r[2], dict(inner_parsing_state=parsing_state.sub_context(in_math_mode=True))
    return InnerMath(a)


def dump_spec(spec):
    from pylatexenc.macrospec._argumentsparser import (LatexArgumentsParser, LatexNoArgumentsParser,
                                                       _LegacyPyltxenc2MacroArgsParserWrapper)
    ap = spec.arguments_parser
    if type(ap) is LatexNoArgumentsParser:
        return 'noargs []'
    if type(ap) is LatexArgumentsParser:
        l = []
        for arg in ap.arguments_spec_list:
            p = arg.parser
            l.append(p if isinstance(p, str) else p.arg_spec)
        return 'new ' + show_list(l, show_str)
    if type(ap) is _LegacyPyltxenc2MacroArgsParserWrapper:
        return ('wrap' + ('T' if ap.args_parser.optional_arg_no_space else 'F') + ' '
                + show_list(list(ap.args_parser.argspec), show_str))
    return '?' + type(ap).__name__


def impl(c):
    warnings.simplefilter('ignore')
    d = c['desc']
    if d['sub'] == 6:
        try:
            if d['spelling'] == 8:
                from pylatexenc.macrospec import std_macro
                spec = std_macro('foo', d['optarg'], d['n'])
            else:
                spec = build_spec(d['spelling'], d['a'])
        except Exception:
            return 'raise'
        return dump_spec(spec)
    w = _walker(d)
    ps = _state(w, d)
    out = []
    for pos in range(len(d['s']) + 1):
        fn, show = legacy_call(w, ps, d, pos)
        out.append(_outcome(fn, show))
    return ' | '.join(out)


# ---------------------------------------------------------------------------------------------
# oracle: the property on the real code (no model)

def _new(w, ps, parser, pos):
    """-> ('ok', nodes, reader position) | ('err', exc) | ('exn', exc)"""
    from pylatexenc.latexwalker import LatexWalkerParseError
    tr = w.make_token_reader(pos=pos)
    try:
        nodes, _ = w.parse_content(parser, token_reader=tr, parsing_state=ps)
    except LatexWalkerParseError as e:
        return ('err', e, None)
    except Exception as e:
        return ('exn', e, None)
    return ('ok', nodes, tr.cur_pos())


def _legacy(fn):
    from pylatexenc.latexwalker import LatexWalkerParseError
    from pylatexenc.latexnodes import LatexWalkerEndOfStream
    try:
        return ('ok', fn())
    except LatexWalkerParseError as e:
        return ('err', e)
    except LatexWalkerEndOfStream as e:
        return ('eos', e)
    except Exception as e:
        return ('exn', e)


def _is_closing_brace_error(e):
    return bool(getattr(e, '_error_was_unexpected_closing_brace_in_expression', False))


def _clear_nodeargd(n):
    from pylatexenc.latexnodes import nodes as N
    if n is not None and isinstance(n, (N.LatexMacroNode, N.LatexEnvironmentNode, N.LatexSpecialsNode)):
        n.nodeargd = None
    return n


def _tokdump(t):
    return tokharness.dump_token(t)


def _fail(sig, pos, **kw):
    return (sig, dict(kw, pos=pos))


def _oracle_pos(w, ps, d, pos):
    from pylatexenc.latexnodes import parsers as P
    from pylatexenc.latexnodes import nodes as N
    from pylatexenc.latexnodes import LatexWalkerEndOfStream, LatexWalkerTokenParseError
    sub, v = d['sub'], d.get('v', {})
    tol = d['tolerant']
    fn, show = legacy_call(w, ps, d, pos)
    L = _legacy(fn)
    if L[0] == 'exn':
        e = L[1]
        if sub == 3 and isinstance(e, ValueError) and len(_pair_str(v['bt'])) not in (1, 2) or \
           (sub == 3 and isinstance(e, ValueError) and len(_pair_str(v['bt'])) == 1 and v['bt'] not in '{[(<'):
            return None                          # documented ValueError for an invalid brace type
        if sub == 7 and isinstance(e, ValueError) and v['amm'] is not None and len(v['amm']) != len(v['a']):
            return None
        return _fail('legacy-raised-%s' % type(e).__name__, pos, message=str(e)[:200])
    if sub == 0:
        kw = {}
        gd = list(ps.latex_group_delimiters)
        extra = [tuple(p) for p in (v['incl'] or [])]
        if v['bac'] is False:
            extra = extra + [('[', ']')]
        if extra:
            kw['latex_group_delimiters'] = gd + extra
        if v['envs'] is not None and v['envs'] != ps.enable_environments:
            kw['enable_environments'] = v['envs']
        ps2 = ps.sub_context(**kw) if kw else ps
        try:
            t = ('ok', w.make_token_reader(pos=pos).peek_token(ps2))
        except LatexWalkerEndOfStream as e:
            t = ('eos', e)
        except LatexWalkerTokenParseError as e:
            t = ('err', e)
        if t[0] != L[0]:
            return _fail('get_token-outcome-differs', pos, legacy=L[0], new=t[0])
        if t[0] == 'ok' and _tokdump(t[1]) != _tokdump(L[1]):
            return _fail('get_token-token-differs', pos, legacy=_tokdump(L[1]), new=_tokdump(t[1]))
        if t[0] == 'err' and t[1].pos != L[1].pos:
            return _fail('get_token-error-pos-differs', pos, legacy=L[1].pos, new=t[1].pos)
        return None
    if sub == 1:
        b = _py_brace(v['brace'])
        ps2 = ps
        clbr = None
        if b is not None:
            if len(b) == 2:
                opbr, clbr = b[0], b[1]
            else:
                clbr = b
                opbr = {'}': '{', ']': '[', ')': '(', '>': '<'}[b]
            if (opbr, clbr) not in ps.latex_group_delimiters:
                ps2 = ps.sub_context(latex_group_delimiters=list(ps.latex_group_delimiters) + [(opbr, clbr)])

        def stop_tok(tok):
            if clbr is not None and tok.tok == 'brace_close' and tok.arg == clbr:
                return True
            if v['env'] is not None and tok.tok == 'end_environment' and tok.arg == v['env']:
                return True
            if v['math'] is not None and tok.tok in ('mathmode_inline', 'mathmode_display') and tok.arg == v['math']:
                return True
            return False

        def stop_nl(nl):
            return v['max'] is not None and len(nl) >= v['max']
        parser = P.LatexGeneralNodesParser(
            stop_token_condition=stop_tok, stop_nodelist_condition=stop_nl,
            require_stop_condition_met=(b is not None or v['env'] is not None or v['math'] is not None),
            handle_stop_condition_token=lambda token, latex_walker, token_reader, parsing_state: token_reader.move_past_token(token))
        R = _new(w, ps2, parser, pos)
        if R[0] == 'exn':
            return None if L[0] != 'ok' else _fail('get_latex_nodes-ok-but-new-raised', pos, new=repr(R[1])[:200])
        if R[0] == 'err':
            if L[0] != 'err':
                return _fail('get_latex_nodes-does-not-fail-with-new', pos, legacy=L[0], new=str(R[1])[:120])
            if L[1].pos != R[1].pos:
                return _fail('get_latex_nodes-error-pos-differs', pos, legacy=L[1].pos, new=R[1].pos)
            return None
        if L[0] != 'ok':
            return _fail('get_latex_nodes-fails-but-new-succeeds', pos, legacy=repr(L[1])[:200])
        nodes, p, l = L[1]
        nn, cur = R[1], R[2]
        exp = (treedump.dump(nn), None if nn is None else nn.pos, None if nn is None else cur - nn.pos)
        got = (treedump.dump(nodes), p, l)
        if exp != got:
            return _fail('get_latex_nodes-result-differs', pos, legacy=list(got), new=list(exp))
        return None
    if sub == 2:
        parser = P.LatexExpressionParser(return_full_node_list=False, single_token_requiring_arg_is_error=not tol,
                                         allow_pre_space=True, allow_pre_comments=True)
        R = _new(w, ps, parser, pos)
        if R[0] == 'exn':
            return None if L[0] != 'ok' else _fail('get_latex_expression-ok-but-new-raised', pos, new=repr(R[1])[:200])
        if R[0] == 'err':
            if _is_closing_brace_error(R[1]) and not v['sb']:
                nn = None                                    # N2: swallowed
            else:
                if L[0] != 'err':
                    return _fail('get_latex_expression-does-not-fail-with-new', pos, legacy=L[0], new=str(R[1])[:120])
                if L[1].pos != R[1].pos:
                    return _fail('get_latex_expression-error-pos-differs', pos, legacy=L[1].pos, new=R[1].pos)
                return None
        else:
            nn = R[1]
            if nn is None and not tol:
                # premise [reader_premises] of C16_legacy_args_equiv_partial, checked on the real code
                return _fail('strict-expression-parser-returned-no-node', pos)
        if L[0] != 'ok':
            return _fail('get_latex_expression-fails-but-new-succeeds', pos, legacy=repr(L[1])[:200])
        node, p, l = L[1]
        if nn is None:
            if tol or v['sb'] is False:
                exp = ('C(%d,%d,%s,"")' % (pos, pos, treedump._show_mode((bool(ps.in_math_mode), ps.math_mode_delimiter))), pos, 0)
            else:
                exp = ('_', pos, 0)
        else:
            _clear_nodeargd(nn)                              # N1
            exp = (treedump.dump(nn), nn.pos, nn.len)
        got = (treedump.dump(node), p, l)
        if exp != got:
            return _fail('get_latex_expression-result-differs', pos, legacy=list(got), new=list(exp))
        return None
    if sub == 3:
        bt = _py_brace(v['bt'])
        pair = {'{': ('{', '}'), '[': ('[', ']'), '(': ('(', ')'), '<': ('<', '>')}.get(bt) if isinstance(bt, str) and len(bt) == 1 \
            else (tuple(bt) if len(bt) == 2 else None)
        if pair is None:
            return _fail('get_latex_braced_group-accepted-invalid-brace-type', pos)
        R = _new(w, ps, P.LatexDelimitedGroupParser(delimiters=pair, allow_pre_space=True), pos)
        return _cmp_node_result('get_latex_braced_group', L, R, pos, lambda: (None, pos, 0), tol)
    if sub == 4:
        R = _new(w, ps, P.LatexSingleNodeParser(), pos)
        if R[0] == 'exn':
            return None if L[0] != 'ok' else _fail('get_latex_environment-ok-but-new-raised', pos, new=repr(R[1])[:200])
        if R[0] == 'err':
            if L[0] != 'err':
                return _fail('get_latex_environment-does-not-fail-with-new', pos, legacy=L[0])
            return None
        nl = R[1]
        is_env = (nl is not None and len(nl) == 1 and nl[0] is not None and nl[0].isNodeType(N.LatexEnvironmentNode)
                  and (v['name'] is None or nl[0].environmentname == v['name']))
        if not is_env:
            if L[0] != 'err':
                return _fail('get_latex_environment-returned-without-environment', pos, legacy=L[0])
            return None
        if L[0] != 'ok':
            return _fail('get_latex_environment-fails-but-new-succeeds', pos, legacy=repr(L[1])[:200])
        node, p, l = L[1]
        exp = (treedump.dump(nl[0]), nl[0].pos, nl[0].len)
        got = (treedump.dump(node), p, l)
        if exp != got:
            return _fail('get_latex_environment-result-differs', pos, legacy=list(got), new=list(exp))
        if l != R[2] - p:
            return _fail('get_latex_environment-len-is-not-reader-position', pos, legacy=l, reader=R[2])
        return None
    if sub == 5:
        # the pylatexenc-3 parser of an optional argument: what the standard argument '[' uses
        R = _new(w, ps, P.LatexStandardArgumentParser('['), pos)
        return _cmp_node_result('get_latex_maybe_optional_arg', L, R, pos, lambda: None, tol)
    if sub == 7:
        return _oracle_args(w, ps, d, pos, L)
    return None


def _cmp_node_result(name, L, R, pos, none_result, tol):
    if R[0] == 'exn':
        return None if L[0] != 'ok' else _fail(name + '-ok-but-new-raised', pos, new=repr(R[1])[:200])
    if R[0] == 'err':
        if L[0] != 'err':
            return _fail(name + '-does-not-fail-with-new', pos, legacy=L[0], new=str(R[1])[:120])
        if L[1].pos != R[1].pos:
            return _fail(name + '-error-pos-differs', pos, legacy=L[1].pos, new=R[1].pos)
        return None
    if L[0] != 'ok':
        return _fail(name + '-fails-but-new-succeeds', pos, legacy=repr(L[1])[:200])
    nn, cur = R[1], R[2]
    if nn is None:
        if cur != pos and not tol:
            return _fail(name + '-absent-but-reader-moved', pos, reader=cur)
        exp = none_result()
        if L[1] != exp:
            return _fail(name + '-empty-result-differs', pos, legacy=repr(L[1])[:200], expected=repr(exp))
        return None
    if L[1] is None:
        return _fail(name + '-returned-None-but-new-has-node', pos, new=treedump.dump(nn)[:200])
    node, p, l = L[1]
    exp = (treedump.dump(nn), nn.pos, nn.len)
    got = (treedump.dump(node), p, l)
    if exp != got:
        return _fail(name + '-result-differs', pos, legacy=list(got), new=list(exp))
    if not tol and p is not None and l is not None and p + l != cur:
        # the legacy tuple must lead to the reader position of the new API (in tolerant mode recovered
        # nodes need not end where the reader is put back)
        return _fail(name + '-end-is-not-reader-position', pos, legacy_end=p + l, reader=cur)
    return None


def new_arg_specs(a, noopt, amm):
    """the pylatexenc-3 argument specifications equivalent to MacroStandardArgsParser(a, noopt, amm)"""
    from pylatexenc.latexnodes import (LatexArgumentSpec, ParsingStateDeltaEnterMathMode,
                                       ParsingStateDeltaLeaveMathMode)
    from pylatexenc.latexnodes.parsers import LatexStandardArgumentParser
    out = []
    for j, c in enumerate(a):
        parser = c
        if c == '[' and noopt:
            parser = LatexStandardArgumentParser('[', allow_pre_space=False)
        delta = None
        if amm is not None and amm[j] is not None:
            delta = ('enter' if amm[j] else 'leave')
        out.append((parser, delta))
    return out


def _oracle_args(w, ps, d, pos, L):
    from pylatexenc.latexnodes import (LatexArgumentSpec, ParsingStateDeltaEnterMathMode,
                                       ParsingStateDeltaLeaveMathMode)
    from pylatexenc.macrospec import LatexArgumentsParser
    from pylatexenc.latexnodes import nodes as N
    v = d['v']
    if v['amm'] is not None and len(v['amm']) != len(v['a']):
        return None if L[0] == 'exn' else _fail('parse_args-accepts-bad-args_math_mode', pos)
    specs = []
    for parser, delta in new_arg_specs(v['a'], v['noopt'], v['amm']):
        kw = {}
        if delta == 'enter' and not ps.in_math_mode:
            kw['parsing_state_delta'] = ParsingStateDeltaEnterMathMode()
        elif delta == 'leave' and ps.in_math_mode:
            kw['parsing_state_delta'] = ParsingStateDeltaLeaveMathMode()
        specs.append(LatexArgumentSpec(parser, **kw))
    R = _new(w, ps, LatexArgumentsParser(specs), pos)
    if R[0] == 'exn':
        return None if L[0] != 'ok' else _fail('parse_args-ok-but-new-raised', pos, new=repr(R[1])[:200])
    if R[0] == 'err':
        if _is_closing_brace_error(R[1]):
            return None                                      # N2: the legacy algorithm goes on with a dummy node
        from pylatexenc.latexnodes import LatexWalkerTokenParseError
        if isinstance(R[1], LatexWalkerTokenParseError) and v['noopt']:
            return None                                      # N4: look-ahead token error (see notes/C16.md)
        if L[0] not in ('err', 'eos'):
            return _fail('parse_args-does-not-fail-with-new', pos, legacy=L[0], new=str(R[1])[:120])
        return None
    if R[1] is None:
        return None                                          # tolerant recovery of the whole arguments parser
    if L[0] != 'ok':
        return _fail('parse_args-fails-but-new-succeeds', pos, legacy=repr(L[1])[:200])
    argn, end = L[1]
    new_args = list(R[1].argnlist)
    exp = []
    for c, n in zip(v['a'], new_args):
        if c == '{':
            if n is None and (d['tolerant'] or True):
                exp.append(None)                             # compared below (dummy node)
                continue
            _clear_nodeargd(n)                               # N1
        exp.append(n)
    got_d = [treedump.dump(x) for x in argn]
    exp_d = [treedump.dump(x) for x in exp]
    for j, (c, n) in enumerate(zip(v['a'], exp)):
        if c == '{' and n is None:
            exp_d[j] = got_d[j] if got_d[j].startswith('C(') and got_d[j].endswith(',"")') else 'dummy-chars-node'
    if got_d != exp_d:
        return _fail('parse_args-nodes-differ', pos, legacy=got_d, new=exp_d)
    if end != R[2]:
        # tolerant mode: a recovered argument leaves the reader where the recovery put it
        if not d['tolerant']:
            return _fail('parse_args-end-differs', pos, legacy=end, new=R[2])
    return None


def _norm_tree_args(nl):
    """N1 inside trees: single-token macro/specials arguments of \\foo have nodeargd None on the legacy side"""
    from pylatexenc.latexnodes import nodes as N
    for n in treedump.iter_nodes(nl):
        if ((isinstance(n, N.LatexMacroNode) and n.macroname == 'foo')
                or (isinstance(n, N.LatexEnvironmentNode) and n.environmentname == 'foo')) and n.nodeargd is not None:
            spec = n.nodeargd.arguments_spec_list
            for j, x in enumerate(n.nodeargd.argnlist or []):
                if x is not None and isinstance(x, (N.LatexMacroNode, N.LatexSpecialsNode)) and treedump._argspec_chars(n.nodeargd)[j] == '{':
                    x.nodeargd = None
    return nl


def spelling_docs(a):
    full = ''.join({'*': '*', '[': '[o]', '{': '{m}'}[c] for c in a)
    spaced = ''.join({'*': ' *', '[': ' [o]', '{': ' {m}'}[c] for c in a)
    bare = ''.join({'*': '', '[': '', '{': 'x'}[c] for c in a)
    tok = ''.join({'*': '*', '[': '', '{': '\\bar '}[c] for c in a)
    return ['\\foo' + full + 'z', '\\foo' + spaced + ' z', '\\foo ' + bare + ' {t}', '\\foo' + tok + '.',
            'a\\foo' + full[:max(0, len(full) - 2)], '{\\foo' + full + '}', '$\\foo' + full + '$ \\foo', '\\foo[{]}]{{}}*[',
            '\\foo\n\n' + full, '\\foo%c\n' + full,
            # the spelled macro as a direct child of a bracket-delimited argument of another macro
            '\\opt[\\foo' + full + ' z]{y}', '\\opt[a \\foo' + full + ']{y}w']


def _parse_doc(spec, s, tol):
    from pylatexenc.latexwalker import LatexWalker, LatexWalkerParseError
    from pylatexenc.macrospec import LatexContextDb, MacroSpec
    from pylatexenc.latexnodes.parsers import LatexGeneralNodesParser
    db = LatexContextDb()
    if hasattr(spec, 'environmentname'):
        db.add_context_category('a', environments=[spec])
    else:
        db.add_context_category('a', macros=[spec])
    db.add_context_category('b', macros=[MacroSpec('opt', '[{')])
    db.set_unknown_macro_spec(MacroSpec(''))
    w = LatexWalker(s, latex_context=db, tolerant_parsing=tol)
    try:
        nl, _ = w.parse_content(LatexGeneralNodesParser())
    except LatexWalkerParseError as e:
        return ('err', e)
    except Exception as e:
        return ('exn', e)
    return ('ok', nl)


def _oracle_spelling(d):
    from pylatexenc.macrospec import MacroSpec, std_macro
    if d['spelling'] == 8:
        o, n = d['optarg'], d['n']
        a = ('[' if o else '') + '{' * n
        try:
            spec = std_macro('foo', o, n)
        except Exception as e:
            return ('std_macro-raised', {'message': repr(e)[:200]})
        sp = 8
    else:
        a, sp = d['a'], d['spelling']
        try:
            spec = build_spec(sp, a)
        except Exception as e:
            return ('spelling-raised', {'spelling': SPELLINGS[sp], 'message': repr(e)[:200]})
    ref = MacroSpec('foo', [c for c in a])           # the pylatexenc-3 spelling: a list of argument specifiers
    if spec.arguments_parser.argspec != a:
        return ('spelling-argspec-differs', {'spelling': sp, 'argspec': spec.arguments_parser.argspec, 'expected': a})
    if spec.args_parser is not spec.arguments_parser:
        return ('args_parser-is-not-arguments_parser', {'spelling': sp})
    if ''.join(treedump._argspec_chars(spec)) != a and sp not in (5, 6, 7, 9, 10, 11):
        return ('spelling-arguments_spec_list-differs', {'spelling': sp, 'list': repr(spec.arguments_spec_list)[:200]})
    if sp in (4, 9, 10, 11):
        env_docs = ['\\begin{foo}' + x[4:] + '\\end{foo}' for x in spelling_docs(a)[:4]]
        from pylatexenc.macrospec import EnvironmentSpec
        ref = EnvironmentSpec('foo', [c for c in a], is_math_mode=(sp != 4))
        docs = env_docs
    else:
        docs = spelling_docs(a)
    legacy = sp in (5, 6, 7, 9, 10, 11)
    for s in docs:
        for tol in (False, True):
            A = _parse_doc(spec, s, tol)
            B = _parse_doc(ref, s, tol)
            if A[0] == 'exn':
                return ('spelled-spec-parse-raised-%s' % type(A[1]).__name__, {'doc': s, 'tolerant': tol, 'spelling': sp})
            if B[0] == 'err':
                eti = getattr(B[1], 'error_type_info', None) or {}
                if legacy and eti.get('unexpected') == 'closing_latex_group':
                    continue                                 # N2
                if A[0] != 'err':
                    return ('spelled-spec-accepts-what-new-rejects', {'doc': s, 'tolerant': tol, 'spelling': sp,
                                                                       'new': str(B[1])[:120]})
                continue
            if B[0] == 'exn':
                continue
            if A[0] != 'ok':
                return ('spelled-spec-rejects-what-new-accepts', {'doc': s, 'tolerant': tol, 'spelling': sp,
                                                                   'legacy': str(A[1])[:160]})
            if legacy:
                if tol:
                    continue                                 # recovered arguments differ by N2/N3; strict is compared
                _norm_tree_args(B[1])
            da, db_ = treedump.dump(A[1]), treedump.dump(B[1])
            if da != db_:
                return ('spelled-spec-tree-differs', {'doc': s, 'tolerant': tol, 'spelling': sp, 'spelled': da[:400],
                                                      'new': db_[:400]})
            for tree in (A[1], B[1]):
                bad = _legacy_view(tree, a)
                if bad:
                    return ('legacy-nodeoptarg-nodeargs-view-differs-from-arguments', dict(bad, doc=s, spelling=sp))
    return None


def _legacy_view(nl, a):
    """the pylatexenc-1 view (nodeoptarg, nodeargs) of every \\foo node is what the documentation says, computed from
    the parsed arguments: stars skipped, then (optional argument, mandatory ones) if the rest is '[' followed by
    '{'s only; (None, all arguments) otherwise"""
    k = len(a) - len(a.lstrip('*'))
    rest = a[k:]
    optfirst = rest[:1] == '[' and set(rest[1:]) <= {'{'}

    def walk(n):
        kd = treedump.kind(n)
        if kd is None:
            return None
        if kd == 'L':
            for x in (n if isinstance(n, (list, tuple)) else n.nodelist):
                r = walk(x)
                if r:
                    return r
            return None
        pa = getattr(n, 'nodeargd', None)
        if kd == 'M' and n.macroname == 'foo' and pa is not None and len(pa.argnlist or []) == len(a):
            al = list(pa.argnlist)
            eo, ea = (al[k], al[k + 1:]) if optfirst else (None, al)
            go, ga = n.nodeoptarg, list(n.nodeargs)
            if go is not eo or len(ga) != len(ea) or any(x is not y for x, y in zip(ga, ea)):
                return {'node': treedump.dump(n)[:200], 'argspec': a, 'nodeoptarg': treedump.dump(go)[:80] if go is not None else None,
                        'nodeargs': [treedump.dump(x)[:60] if x is not None else None for x in ga]}
        if pa is not None and pa.argnlist:
            for x in pa.argnlist:
                r = walk(x)
                if r:
                    return r
        if hasattr(n, 'nodelist'):
            return walk(n.nodelist)
        return None
    return walk(nl)


def oracle(c):
    warnings.simplefilter('ignore')
    d = c['desc']
    if d['sub'] == 6:
        return _oracle_spelling(d)
    w = _walker(d)
    ps = _state(w, d)
    for pos in range(len(d['s']) + 1):
        r = _oracle_pos(w, ps, d, pos)
        if r is not None:
            return r
    return None


def distribution(cases, impl_out):
    subs = collections.Counter()
    outcomes = collections.Counter()
    names = {0: 'get_token', 1: 'get_latex_nodes', 2: 'get_latex_expression', 3: 'get_latex_braced_group',
             4: 'get_latex_environment', 5: 'get_latex_maybe_optional_arg', 6: 'spelling', 7: 'parse_args'}
    calls = 0
    for c, i in zip(cases, impl_out):
        d = c['desc']
        subs[names[d['sub']]] += 1
        if isinstance(i, str) and d['sub'] != 6:
            for part in i.split(' | '):
                calls += 1
                outcomes[names[d['sub']] + '/' + part.split(' ', 1)[0].split('(')[0]] += 1
    return {'cases_by_entry': dict(subs), 'legacy_calls': calls, 'calls_by_entry_outcome': dict(outcomes),
            'argument_strings': len(ARG_STRINGS), 'spellings': len(SPELLINGS) + 1}
