"""C18 — node-list splitting and key-value parsing are order-preserving partitions.

Coupling (a): generated argument-like content is parsed with the REAL parser,
the real split / filter / keyval functions are called on the real node lists
with every option combination, and their return values are dumped with
treedump.dump; the Coq model (coq/Tree/Split.v, wire entries 1801..1808) gets
wire(tree) + options and must print the same line.  oracle() evaluates the
laws of the property directly on the real return values."""
import random, re, itertools, collections
from common import w_str, w_opt, w_list, w_bool, show_str
import treedump

PID = 'C18'
PROJECTION = 'parts'
RULE = ('real parse trees of generated argument-like content (characters, separators , = ; | and whitespace in every '
        'position incl. leading/trailing/adjacent, nested groups / macros / math containing separators, comments, '
        'specials), optionally with chars nodes cut into adjacent chars nodes (separator at / across node boundaries), '
        'None entries inserted, inner lists (group / math bodies) and walker-less lists; x split_at_chars with '
        'separator kinds (literal 1- and 2-char, empty, regex c\\s*, \\s+, \\s*, callable) x max_split None,0..4 x '
        'keep_empty x skip_none; split_at_node / filter with 8 predicates x all flags x max_split; parse_keyval_content '
        'x 4 policies x separators x default value x extract flag; get_content_as_chars; SingleParsedArgumentInfo views '
        'of every macro argument.  Bounded-exhaustive part: every token string up to length L over '
        '{a , = space {a,b} \\x %c\\n} x all 24 option combinations at separator ",".  Non-trivial: the real call '
        'returned >= 2 parts / >= 1 key.')
EXHAUSTIVE = {'quick': True, 'thorough': True}
ASSUMPTIONS = ['str.isspace / re \\s agree with the 29-code-point table of the model (compared over the whole code space on every run)',
               'str.find, re.search meet their documented behaviour (the model has its own definitions of the three regexes used)',
               'the model tracks /repo WITH fixes/C18-*.diff applied',
               'custom callables for repeated_key_aggregate_action and dict_type other than dict are not modelled']
PARTIAL = ['C18_part_adjacency_partial: proved that every returned list ends (pos_end) at the start of a separator match '
           'inside a top-level chars node, or at the end of the list; NOT proved positionally: pos of part k+1 = pos_end of '
           'part k + length of that separator (the textual form is C18_matcher; the positional form is checked by the '
           'oracle on the real values only)']
REFUTED = ['C18_drop_empty_maxsplit_refuted: with max_split given, keep_empty=False is NOT a filter of the keep_empty=True '
           'result (max_split counts kept parts, like str.split(None, n)); the law is proved for max_split=None',
           'C18_split_at_node_exact_count_refuted: split_at_node(max_split=n>=2) performs only n-1 splits (off-by-one in the '
           'code; "at most n" still holds and is proved)']
CASE_TIMEOUT = 30.0      # generous: spurious timeouts under load would read as disagreements
ALWAYS_SEARCH = False

SPACES = [9, 10, 11, 12, 13, 28, 29, 30, 31, 32, 133, 160, 5760, 8192, 8193, 8194, 8195, 8196, 8197, 8198, 8199,
          8200, 8201, 8202, 8232, 8233, 8239, 8287, 12288]


class _Hang(Exception):
    pass


class SearchWrap(object):
    """'any object with a search() method returning match-like objects'; counts calls so that a
    non-terminating split loop is reported instead of eating memory"""

    def __init__(self, rx):
        self.rx = rx
        self.calls = 0

    def search(self, chars, pos):
        self.calls += 1
        if self.calls > 20000:
            raise _Hang()
        return self.rx.search(chars, pos)


class _M(object):
    def __init__(self, a, b):
        self.a, self.b = a, b

    def start(self):
        return self.a

    def end(self):
        return self.b


_CALLS = [0]


def sep_callable(chars, pos):
    """twin of Split.m_call: next ';' or '|' at or after pos, a doubled character is one separator.
    Exercises every documented way of saying 'no more separators' and both result shapes."""
    _CALLS[0] += 1
    if _CALLS[0] > 20000:
        raise _Hang()               # a split loop that does not terminate is reported, not waited for
    i = pos
    while i < len(chars) and chars[i] not in ';|':
        i += 1
    if i >= len(chars):
        return [None, [], (None, 0), (-2, 0), (-1, 0), ()][(len(chars) + pos) % 6]
    j = i + 2 if (i + 1 < len(chars) and chars[i + 1] == chars[i]) else i + 1
    return _M(i, j) if i % 2 else (i, j)


# separator kinds: (wire, python object factory, regex that one separator fullmatches, may match empty)
def sep_lit(s):
    return {'k': 0, 's': s}


def sep_wire(sp):
    k = sp['k']
    if k == 0:
        return [0] + w_str(sp['s'])
    if k == 1:
        return [1, ord(sp['s'])]
    return [k]


def sep_obj(sp):
    k = sp['k']
    if k == 0:
        return sp['s']
    if k == 1:
        return SearchWrap(re.compile(re.escape(sp['s']) + r'\s*'))
    if k == 2:
        return re.compile(r'\s+')
    if k == 3:
        return SearchWrap(re.compile(r'\s*'))
    return sep_callable


def sep_rx(sp):
    k = sp['k']
    if k == 0:
        return re.escape(sp['s'])
    if k == 1:
        return re.escape(sp['s']) + r'\s*'
    if k == 2:
        return r'\s+'
    if k == 3:
        return r'\s*'
    return r';;|\|\||;|\|'


def sep_may_be_empty(sp):
    return (sp['k'] == 0 and sp['s'] == '') or sp['k'] == 3


SEPS_MAIN = [sep_lit(','), sep_lit('='), sep_lit(', '), sep_lit(',,'), {'k': 1, 's': ','}, {'k': 1, 's': '='},
             {'k': 2}, {'k': 4}, sep_lit(' '), sep_lit('a')]
SEPS_EMPTY = [sep_lit(''), {'k': 3}]

# predicates: twin of Split.pred_of
PREDS = [(0, 'x'), (1, ','), (2, ''), (3, ''), (4, ''), (5, ''), (6, ''), (7, ''), (0, 'textbf'), (1, 'a')]


def pred_fn(k, s):
    from pylatexenc.latexnodes import nodes as N

    def f(n):
        if n is None:
            return k in (4, 7)
        if k == 0:
            return n.isNodeType(N.LatexMacroNode) and n.macroname == s
        if k == 1:
            return n.isNodeType(N.LatexCharsNode) and n.chars == s
        if k == 2:
            return n.isNodeType(N.LatexCommentNode)
        if k == 3:
            return n.isNodeType(N.LatexGroupNode)
        if k == 5:
            return n.isNodeType(N.LatexCharsNode) and len(n.chars.strip()) == 0
        if k == 6:
            return n.isNodeType(N.LatexSpecialsNode) or n.isNodeType(N.LatexMathNode)
        return k == 7
    return f


# ----------------------------------------------------------------------------
# building the real node list of a case

def _parse(s):
    from pylatexenc.latexwalker import LatexWalker
    from pylatexenc.latexnodes.parsers import LatexGeneralNodesParser
    w = LatexWalker(s, tolerant_parsing=False)
    nl, _ = w.parse_content(LatexGeneralNodesParser())
    return w, nl


def _inner_lists(nl):
    from pylatexenc.latexnodes import nodes as N
    out = []
    for n in treedump.iter_nodes(nl):
        sub = getattr(n, 'nodelist', None)
        if isinstance(sub, N.LatexNodeList) and treedump.kind(n) in ('G', '$', 'E'):
            out.append(sub)
    return out


_CACHE = {}


def build_list(d):
    """the LatexNodeList the case operates on (deterministic function of the desc); the real
    functions under test never modify their input, so the object is shared between cases"""
    key = (d['s'], d.get('sel', 0), tuple(d.get('cuts') or ()), tuple(d.get('nones') or ()), d.get('bare', False))
    if key not in _CACHE:
        if len(_CACHE) > 2000:
            _CACHE.clear()
        _CACHE[key] = _build_list(d)
    return _CACHE[key]


def _build_list(d):
    from pylatexenc.latexnodes import nodes as N
    w, nl = _parse(d['s'])
    sel = d.get('sel', 0)
    if sel:
        inner = _inner_lists(nl)
        if inner:
            nl = inner[(sel - 1) % len(inner)]
    cuts = set(d.get('cuts') or [])
    nones = d.get('nones') or []
    bare = d.get('bare', False)
    if not cuts and not nones and not bare:
        return w, nl
    nodes = []
    for n in nl.nodelist:
        if n is not None and n.isNodeType(N.LatexCharsNode):
            cs = sorted(c - n.pos for c in cuts if n.pos < c < n.pos_end)
            a = 0
            for c in cs + [len(n.chars)]:
                if c > a:
                    nodes.append(w.make_node(N.LatexCharsNode, parsing_state=n.parsing_state,
                                             pos=n.pos + a, pos_end=n.pos + c, chars=n.chars[a:c]))
                a = c
        else:
            nodes.append(n)
    for i in nones:
        nodes.insert(min(i, len(nodes)), None)
    if bare:
        return w, N.LatexNodeList(nodes)
    return w, w.make_nodelist(nodes, parsing_state=nl.parsing_state, pos=nl.pos, pos_end=nl.pos_end)


def _wmode(x):
    m = treedump._mode(x)
    return w_bool(m[0]) + w_opt(m[1], w_str)


def _default_value(kind):
    """default_value_nodelist: None | a LatexNodeList | a bare node (gets wrapped)"""
    if not kind:
        return None
    w, nl = _parse('dv')
    return nl if kind == 1 else nl.nodelist[0]


POLICIES = ['first', 'last', 'concatenate', 'error']


def _arg_objects(nl):
    out = []
    for n in treedump.iter_nodes(nl):
        pa = getattr(n, 'nodeargd', None)
        if pa is not None and getattr(pa, 'argnlist', None):
            out.extend(pa.argnlist)
    return out


def make_wire(d):
    """(wire, real object) — None when the desc does not denote a case"""
    fn = d['fn']
    if fn in ('argnl', 'argchars', 'argkv'):
        w, nl = _parse(d['s'])
        args = _arg_objects(nl)
        if not args:
            return None
        arg = args[d['arg'] % len(args)]
        if fn == 'argnl':
            return [1806] + treedump.wire(arg) + w_bool(d['unwrap'])
        if fn == 'argchars':
            return [1807] + treedump.wire(arg)
        from pylatexenc.latexnodes import SingleParsedArgumentInfo
        try:
            content = SingleParsedArgumentInfo(arg).get_content_nodelist()
        except Exception:
            content = None
        return [1808] + treedump.wire(arg) + _wmode(content) + [POLICIES.index(d['policy'])]
    w, nl = build_list(d)
    t = treedump.wire(nl)
    if fn == 'chars':
        return ([1801] + t + _wmode(nl) + sep_wire(d['sep']) + w_opt(d['max_split']) + w_bool(d['keep_empty'])
                + w_bool(d['skip_none']))
    if fn == 'node':
        k, s = d['pred']
        return ([1802] + t + [k] + w_str(s) + w_bool(d['skip_none']) + w_bool(d['keep_separators'])
                + w_opt(d['max_split']))
    if fn == 'filter':
        pr = d['pred']
        return ([1803] + t + ([0] if pr is None else [1, pr[0]] + w_str(pr[1])) + w_bool(d['skip_none'])
                + w_bool(d['skip_comments']) + w_bool(d['skip_ws']))
    if fn == 'keyval':
        return ([1804] + t + _wmode(nl) + sep_wire(d['comma']) + sep_wire(d['eq']) + [POLICIES.index(d['policy'])]
                + treedump.wire(_default_value(d['default'])) + w_bool(d['extract']))
    if fn == 'aschars':
        return [1805] + t
    raise ValueError(fn)


def _case(d, nt=True):
    try:
        wire = make_wire(d)
    except Exception:
        return None
    if wire is None:
        return None
    return {'wire': wire, 'desc': d, 'nt': bool(nt) and _nontrivial(d)}


def _nontrivial(d):
    """the call really splits / really produces a key (decided on the real node list)"""
    fn = d['fn']
    try:
        if fn == 'chars':
            if d['max_split'] == 0 or sep_may_be_empty(d['sep']):
                return False
            w, nl = build_list(d)
            rx = re.compile(sep_rx(d['sep']), flags=re.S)
            return any(n is not None and treedump.kind(n) == 'C' and rx.search(n.chars) for n in nl.nodelist)
        if fn == 'node':
            w, nl = build_list(d)
            pr = pred_fn(*d['pred'])
            return d['max_split'] != 0 and any(pr(n) for n in nl.nodelist if not (n is None and d['skip_none']))
        if fn == 'filter':
            w, nl = build_list(d)
            return len(nl.nodelist) > 0
        if fn == 'keyval':
            w, nl = build_list(d)
            return any(n is not None for n in nl.nodelist)
        return True
    except Exception:
        return False


def case_from_desc(d):
    return _case(d)


# ----------------------------------------------------------------------------
# calling the real code

def call_real(d):
    """returns ('ok', value, list-object, walker) or ('exc', name)"""
    from pylatexenc.latexwalker import LatexWalkerParseError
    from pylatexenc.latexnodes import SingleParsedArgumentInfo
    fn = d['fn']
    _CALLS[0] = 0
    try:
        if fn in ('argnl', 'argchars', 'argkv'):
            w, nl = _parse(d['s'])
            args = _arg_objects(nl)
            arg = args[d['arg'] % len(args)]
            ai = SingleParsedArgumentInfo(arg)
            if fn == 'argnl':
                return ('ok', ai.get_content_nodelist(unwrap_double_group=d['unwrap']), arg, w)
            if fn == 'argchars':
                return ('ok', ai.get_content_as_chars(), arg, w)
            return ('ok', ai.parse_content_as_keyval(repeated_key_aggregate_action=d['policy']), arg, w)
        w, nl = build_list(d)
        if fn == 'chars':
            r = nl.split_at_chars(sep_obj(d['sep']), max_split=d['max_split'], keep_empty=d['keep_empty'],
                                  skip_none=d['skip_none'])
        elif fn == 'node':
            r = nl.split_at_node(pred_fn(*d['pred']), skip_none=d['skip_none'],
                                 keep_separators=d['keep_separators'], max_split=d['max_split'])
        elif fn == 'filter':
            r = nl.filter(node_predicate_fn=(None if d['pred'] is None else pred_fn(*d['pred'])),
                          skip_none=d['skip_none'], skip_comments=d['skip_comments'],
                          skip_whitespace_char_nodes=d['skip_ws'])
        elif fn == 'keyval':
            r = nl.parse_keyval_content(comma_sep_chars=sep_obj(d['comma']), eq_sep_chars=sep_obj(d['eq']),
                                        repeated_key_aggregate_action=d['policy'],
                                        default_value_nodelist=_default_value(d['default']),
                                        extract_value_group_contents=d['extract'])
        elif fn == 'aschars':
            r = nl.get_content_as_chars()
        else:
            raise ValueError(fn)
        return ('ok', r, nl, w)
    except LatexWalkerParseError as e:
        return ('exc', 'ParseError ' + ('-' if e.pos is None else str(e.pos)))
    except _Hang:
        return ('exc', 'HANG')
    except (ValueError, AttributeError, TypeError, RuntimeError, IndexError, KeyError) as e:
        return ('exc', type(e).__name__)


def _dump_kv(r):
    return '[' + ','.join('(%s:%s)' % (show_str(k), treedump.dump(v)) for k, v in r.items()) + ']'


def _dump_parts(r):
    return '[' + ','.join(treedump.dump(p) for p in r) + ']'


def same(m, i, c):
    d = c['desc']
    if isinstance(i, str) and i.startswith('!TIMEOUT') and not (d['fn'] == 'chars' and sep_may_be_empty(d['sep'])):
        import common                   # a loaded machine: run the case once more, alone
        r = common._pool_call((impl, c, 60.0))
        i = r if isinstance(r, str) else '!' + str(r[0])
    return m == i


def impl(c):
    d = c['desc']
    r = call_real(d)
    if r[0] == 'exc':
        return 'EXC ' + r[1]
    v = r[1]
    fn = d['fn']
    if fn in ('chars', 'node'):
        return _dump_parts(v)
    if fn in ('keyval', 'argkv'):
        return _dump_kv(v)
    if fn in ('aschars', 'argchars'):
        return show_str(v)
    return treedump.dump(v)


# ----------------------------------------------------------------------------
# the property itself on the real return values

def _is_chars(n):
    return treedump.kind(n) == 'C'


def _verb(x, src):
    """verbatim text of a node list: chars of chars nodes, source span of every other node (what
    latex_verbatim() returns for walker-bound nodes; walker-less pieces cannot answer it)"""
    return ''.join(n.chars if _is_chars(n) else src[n.pos:n.pos_end] for n in x.nodelist if n is not None)


def _split_oracle(d, parts, nl, w):
    from pylatexenc.latexnodes import nodes as N
    src = w.s
    sp = d['sep']
    ms, keep, skipn = d['max_split'], d['keep_empty'], d['skip_none']
    for p in parts:
        if not isinstance(p, N.LatexNodeList):
            return ('split-part-type', {'observed': repr(type(p))})
    # positions: every returned chars node is exactly the source text it claims to span
    for p in parts:
        for n in p.nodelist:
            if n is not None and _is_chars(n):
                if n.pos is None or n.pos_end is None or src[n.pos:n.pos_end] != n.chars or len(n.chars) == 0:
                    return ('split-positions', {'node': treedump.dump(n),
                                                'source_slice': src[n.pos:n.pos_end] if n.pos is not None else None})
    for p in parts:
        bad = _api_verbatim(p, src, 'split')
        if bad:
            return bad
    # partition: the non-chars nodes are the original objects, in order, each exactly once
    orig_opaque = [n for n in nl.nodelist if not (n is None and skipn) and not (n is not None and _is_chars(n))]
    got_opaque = [n for p in parts for n in p.nodelist if not (n is not None and _is_chars(n))]
    if len(orig_opaque) != len(got_opaque) or any(a is not b for a, b in zip(orig_opaque, got_opaque)):
        return ('split-partition', {'expected': [treedump.dump(n) for n in orig_opaque],
                                    'observed': [treedump.dump(n) for n in got_opaque]})
    # the characters of the parts are the characters of the list minus separators, in order
    rx1 = sep_rx(sp)
    whole = _verb(nl, src)
    ptexts = [_verb(p, src) for p in parts]
    if keep and sp['k'] == 0:
        if sp['s'].join(ptexts) != whole:
            return ('split-join', {'joined': sp['s'].join(ptexts), 'expected': whole})
    # general join law through the positions (gaps between consecutive parts are separators)
    allpos = all(p.pos is not None and p.pos_end is not None for p in parts) and nl.pos is not None \
        and nl.pos_end is not None and all(n is not None for n in nl.nodelist) and src[nl.pos:nl.pos_end] == whole
    if allpos and parts:
        many = '(?:%s)%s' % (rx1, '' if keep else '+')
        for p in parts:
            if src[p.pos:p.pos_end] != _verb(p, src):
                return ('split-list-span', {'part': treedump.dump(p), 'source_slice': src[p.pos:p.pos_end]})
        for a, b in zip(parts, parts[1:]):
            gap = src[a.pos_end:b.pos]
            if a.pos_end > b.pos or not re.fullmatch(many, gap, flags=re.S):
                return ('split-join', {'gap': gap, 'between': [treedump.dump(a), treedump.dump(b)]})
        lead, trail = src[nl.pos:parts[0].pos], src[parts[-1].pos_end:nl.pos_end]
        edge = '(?:%s)*' % rx1 if not keep else ''
        if not re.fullmatch(edge, lead, flags=re.S) or not re.fullmatch(edge, trail, flags=re.S):
            return ('split-join', {'lead': lead, 'trail': trail})
    if keep and not parts:
        return ('split-join', {'observed': 'no part at all although keep_empty'})
    if not keep and any(len(p.nodelist) == 0 for p in parts):
        return ('split-dropempty', {'observed': 'an empty part although keep_empty=False'})
    # children are opaque: never more splits than separator matches in the top-level chars nodes
    nsep = 0
    for n in nl.nodelist:
        if n is not None and _is_chars(n):
            nsep += len([m for m in re.finditer(rx1, n.chars, flags=re.S) if m.end() > m.start()])
    if len(parts) > nsep + 1:
        return ('split-children', {'parts': len(parts), 'separators_in_top_level_chars': nsep})
    # completeness: no separator is left inside a top-level chars node of a part (of any part when the number of
    # splits is unlimited, of every part but the last one otherwise)
    if not sep_may_be_empty(sp):
        for pi, p in enumerate(parts):
            if ms is not None and pi >= ms:
                break
            for n in p.nodelist:
                if n is not None and _is_chars(n):
                    m = re.search(rx1, n.chars, flags=re.S)
                    if m and m.end() > m.start():
                        return ('split-missed-separator', {'part': pi, 'node': treedump.dump(n), 'at': m.start()})
    # max_split
    if ms is not None and len(parts) > ms + 1:
        return ('split-maxsplit', {'parts': len(parts), 'max_split': ms})
    # relation to the unlimited split / to keep_empty=True
    if sep_may_be_empty(sp):
        return None
    if ms is not None and keep:
        full = nl.split_at_chars(sep_obj(sp), keep_empty=True, skip_none=skipn)
        fd, pd = [treedump.dump(p) for p in full], [treedump.dump(p) for p in parts]
        if fd[:ms] != pd[:ms] or len(pd) != min(len(fd), ms + 1) or (len(fd) <= ms + 1 and fd != pd):
            return ('split-maxsplit', {'unlimited': fd, 'limited': pd, 'max_split': ms})
    if ms is None and not keep:
        full = nl.split_at_chars(sep_obj(sp), keep_empty=True, skip_none=skipn)
        fd = [treedump.dump(p) for p in full if len(p.nodelist)]
        if fd != [treedump.dump(p) for p in parts]:
            return ('split-dropempty', {'keep_empty_true_filtered': fd, 'keep_empty_false': [treedump.dump(p) for p in parts]})
    return None


def _node_oracle(d, parts, nl, w):
    pr = pred_fn(*d['pred'])
    ms, ks, skipn = d['max_split'], d['keep_separators'], d['skip_none']
    items = [n for n in nl.nodelist if not (skipn and n is None)]
    flat = [n for p in parts for n in p.nodelist]
    if ms is not None and len(parts) > ms + 1:
        return ('splitnode-maxsplit', {'parts': len(parts), 'max_split': ms})
    if not parts:
        return ('splitnode-partition', {'observed': 'no parts'})
    for p in parts:
        bad = _api_verbatim(p, w.s, 'splitnode')
        if bad:
            return bad
    if ks:
        if len(flat) != len(items) or any(a is not b for a, b in zip(flat, items)):
            return ('splitnode-partition', {'observed': _dump_parts(parts)})
        for p in parts[1:]:
            if not p.nodelist or not pr(p.nodelist[0]):
                return ('splitnode-partition', {'observed': 'part does not start with its separator'})
    else:
        # re-insert: items = part0 + [sep] + part1 + ... for some separators satisfying the predicate
        i = 0
        for k, p in enumerate(parts):
            for n in p.nodelist:
                if i >= len(items) or items[i] is not n:
                    return ('splitnode-partition', {'observed': _dump_parts(parts)})
                i += 1
            if k + 1 < len(parts):
                if i >= len(items) or not pr(items[i]):
                    return ('splitnode-partition', {'observed': 'missing separator between parts'})
                i += 1
        if i != len(items):
            return ('splitnode-partition', {'observed': 'nodes lost'})
    # no separator left inside the parts unless max_split stopped the splitting
    if ms is None:
        for p in parts:
            for n in (p.nodelist[1:] if (ks and p is not parts[0]) else p.nodelist):
                if pr(n):
                    return ('splitnode-unsplit', {'observed': _dump_parts(parts)})
    return None


def _api_verbatim(x, src, what):
    """the list's own latex_verbatim() is the concatenation of its nodes' source texts (the observation
    point the property names); lists holding walker-less pieces cannot answer it and are skipped"""
    try:
        got = x.latex_verbatim()
    except TypeError:
        return None
    exp = _verb(x, src)
    if got != exp:
        return (what + '-verbatim', {'expected': exp, 'observed': got, 'list': treedump.dump(x)})
    return None


def _filter_oracle(d, r, nl, w):
    from pylatexenc.latexnodes import nodes as N
    pr = None if d['pred'] is None else pred_fn(*d['pred'])

    def keepit(n):
        if n is None:
            return (not d['skip_none']) and (pr is None or pr(n))
        if d['skip_comments'] and treedump.kind(n) == '#':
            return False
        if d['skip_ws'] and _is_chars(n) and n.chars.strip() == '':
            return False
        return pr is None or pr(n)
    exp = [n for n in nl.nodelist if keepit(n)]
    got = list(r.nodelist)
    if len(exp) != len(got) or any(a is not b for a, b in zip(exp, got)):
        return ('filter-subsequence', {'expected': [treedump.dump(n) for n in exp], 'observed': treedump.dump(r)})
    if not got and (r.pos != nl.pos_end or r.pos_end != nl.pos_end):
        return ('filter-span', {'observed': treedump.dump(r)})
    return _api_verbatim(r, w.s, 'filter')


def _keyval_oracle(d, got, nl, w, comma=None, eq=None, default=0, extract=True):
    """key-value parsing agrees with splitting at commas and then at the first '=' of each part,
    repeated keys combined as the policy names"""
    from pylatexenc.latexnodes import nodes as N
    pol = d['policy']
    comma = sep_obj(comma or sep_lit(','))
    eq = sep_obj(eq or sep_lit('='))
    pairs = []
    seen = set()
    try:
        for part in nl.split_at_chars(comma):
            e = part.split_at_chars(eq, max_split=1)
            if not e:
                continue
            key = e[0].get_content_as_chars()
            if pol == 'error' and key in seen:
                return ('EXC', 'ValueError')        # the first failure in list order wins
            seen.add(key)
            if len(e) == 1:
                val = None
            else:
                val = e[1]
                if extract and len(val.nodelist) == 1 and treedump.kind(val.nodelist[0]) == 'G':
                    val = val.nodelist[0].nodelist
            if val is None:
                val = _default_value(default)
            vnodes = list(val.nodelist) if isinstance(val, N.LatexNodeList) else [val]
            pairs.append((key, vnodes, val if isinstance(val, N.LatexNodeList) else None))
    except Exception as ex:
        return ('EXC', type(ex).__name__)
    keys = []
    for k, _, _ in pairs:
        if k not in keys:
            keys.append(k)
    exp = []
    for k in keys:
        vs = [(v, o) for kk, v, o in pairs if kk == k]
        if pol == 'first':
            exp.append((k, vs[0][0]))
        elif pol == 'last':
            exp.append((k, vs[-1][0]))
        else:
            exp.append((k, [n for v, _ in vs for n in v]))
    return exp


def _keyval_check(d, r, exp, src=None):
    from pylatexenc.latexnodes import nodes as N
    if isinstance(exp, tuple):          # expected exception
        if r[0] == 'exc' and (r[1] == exp[1] or (exp[1].startswith('LatexWalker') and r[1].startswith('ParseError'))):
            return None
        return ('keyval-expected-exception', {'expected': exp[1], 'observed': r[1] if r[0] == 'exc' else 'a result'})
    if r[0] == 'exc':
        return ('keyval-exception:' + r[1].split(' ')[0], {'expected': [(k, [treedump.dump(n) for n in v]) for k, v in exp]})
    got = r[1]
    for k, v in got.items():
        if not isinstance(v, N.LatexNodeList):
            return ('keyval-value-type', {'key': k, 'observed': repr(type(v))})
    if list(got.keys()) != [k for k, _ in exp]:
        return ('keyval-keys', {'expected': [k for k, _ in exp], 'observed': list(got.keys())})
    for k, v in exp:
        gv = list(got[k].nodelist)
        if len(gv) != len(v) or any(a is not b and treedump.dump(a) != treedump.dump(b) for a, b in zip(gv, v)):
            return ('keyval-values', {'key': k, 'expected': [treedump.dump(n) for n in v], 'observed': treedump.dump(got[k])})
        if src is not None:
            bad = _api_verbatim(got[k], src, 'keyval')
            if bad:
                return bad
    return None


def oracle(c):
    d = c['desc']
    fn = d['fn']
    r = call_real(d)
    if fn == 'chars':
        if r[0] == 'exc':
            if r[1] == 'ValueError' and sep_may_be_empty(d['sep']):
                return None             # documented refusal of an empty separator (fix C18-empty-separator)
            return ('split-exception:' + r[1], {})
        return _split_oracle(d, r[1], r[2], r[3])
    if fn == 'node':
        if r[0] == 'exc':
            return ('splitnode-exception:' + r[1], {})
        return _node_oracle(d, r[1], r[2], r[3])
    if fn == 'filter':
        if r[0] == 'exc':
            w, nl = build_list(d)
            if r[1] == 'AttributeError' and not d['skip_none'] and (d['skip_comments'] or d['skip_ws']) \
               and any(n is None for n in nl.nodelist):
                return None             # not part of the property: isNodeType on a None entry (see notes)
            return ('filter-exception:' + r[1], {})
        return _filter_oracle(d, r[1], r[2], r[3])
    if fn == 'keyval':
        w, nl = build_list(d)
        exp = _keyval_oracle(d, None, nl, w, d['comma'], d['eq'], d['default'], d['extract'])
        return _keyval_check(d, r, exp, w.s)
    if fn == 'argkv':
        from pylatexenc.latexnodes import SingleParsedArgumentInfo
        w, nl0 = _parse(d['s'])
        args = _arg_objects(nl0)
        arg = args[d['arg'] % len(args)]
        try:
            content = SingleParsedArgumentInfo(arg).get_content_nodelist()
        except Exception:
            return None
        own = _content_items(arg, True)
        if len(own) != len(content.nodelist) or any(a is not b for a, b in zip(own, content.nodelist)):
            return ('argument-content-view-differs-from-documented', {'argument': treedump.dump(arg)[:200]})
        exp = _keyval_oracle(d, None, content, w)
        return _keyval_check(d, r, exp, w.s)
    if fn == 'aschars':
        if r[0] == 'exc':
            return None if r[1].startswith('ParseError') else ('aschars-exception:' + r[1], {})
        nl = r[2]

        def txt(l):
            out = ''
            for n in l:
                k = treedump.kind(n)
                if k == 'C':
                    out += n.chars
                elif k == 'G':
                    out += txt(n.nodelist.nodelist)
                elif k not in ('#', None):
                    return None
            return out
        exp = txt(nl.nodelist)
        if exp is not None and exp != r[1]:
            return ('aschars-mismatch', {'expected': exp, 'observed': r[1]})
        return None
    if fn == 'argnl':
        if r[0] == 'exc':
            return ('argnl-exception:' + r[1], {})
        from pylatexenc.latexnodes import nodes as N
        if not isinstance(r[1], N.LatexNodeList):
            return ('argnl-type', {'observed': repr(type(r[1]))})
        exp = _content_items(r[2], d['unwrap'])
        got = list(r[1].nodelist)
        if len(exp) != len(got) or any(a is not b for a, b in zip(exp, got)):
            return ('argument-content-view-differs-from-documented', {
                'argument': treedump.dump(r[2])[:200], 'unwrap_double_group': d['unwrap'],
                'expected': [treedump.dump(n)[:80] for n in exp], 'observed': [treedump.dump(n)[:80] for n in got]})
        return None
    return None


def _content_items(arg, unwrap):
    """the documented content view of an argument, item objects: absent -> [None]; a node list -> its items; a group ->
    its contents, or - with unwrap_double_group - the contents of its ONLY item when that is a group with another
    opening delimiter; any other node -> that node"""
    from pylatexenc.latexnodes import nodes as N
    if arg is None:
        return [None]
    if isinstance(arg, N.LatexNodeList):
        return list(arg.nodelist)
    if treedump.kind(arg) == 'G':
        items = list(arg.nodelist.nodelist)
        if unwrap and len(items) == 1 and items[0] is not None and treedump.kind(items[0]) == 'G' \
           and items[0].delimiters[0] != arg.delimiters[0]:
            return list(items[0].nodelist.nodelist)
        return items
    return [arg]


# ----------------------------------------------------------------------------
# generators

ATOMS = ['a', 'b', 'k', '1', ' ', ',', ',', ',', '=', '=', ';', '|', '  ', '\n', ', ', ',,', ';;', '\t']


def gen_src(rnd, depth=0, math=False):
    n = rnd.randint(0, 7 if depth == 0 else 4)
    out = []
    for _ in range(n):
        r = rnd.random()
        if r < 0.55:
            out.append(rnd.choice(ATOMS))
        elif r < 0.70 and depth < 2:
            out.append('{' + gen_src(rnd, depth + 1, math) + '}')
        elif r < 0.80:
            out.append(rnd.choice(['\\x', '\\x ', '\\textbf{' + gen_src(rnd, depth + 1, math) + '}', '\\emph{a,b=c}',
                                   '\\,', '\\;', '\\item[' + rnd.choice(['a,b', '{*}', '']) + ']',
                                   '\\section*[o,p]{t,u}', '\\textbf{{[}}',
                                   # an optional argument whose whole content is ONE group: in brackets (same
                                   # delimiters as the argument: stays one child), in braces (unwrapped), with company
                                   '\\item[[a,b]]', '\\section[[k=v,w=z]]{t}', '\\item[{a,b}]', '\\item[[a],b]', '\\item[ [a,b]]',
                                   '\\section[{k=v},w=z]{t}', '\\item[[]]', '\\textbf{{a,b}}', '\\textbf{{a},b}']))
        elif r < 0.87:
            out.append('%' + rnd.choice(['', ',', 'a=b,c', ' ']) + '\n')
        elif r < 0.93 and depth < 2 and not math:
            out.append('$' + gen_src(rnd, depth + 1, True).replace('\n\n', '\n') + '$')
        else:
            out.append(rnd.choice(['~', '&', '[', ']', '``', "''", '\n\n'] if not math else ['~', '&', '^', '_']))
    s = ''.join(out)
    return s.replace('\n\n', '\n') if math else s


def gen_kv_src(rnd):
    keys = ['a', 'a', 'b', 'k', ' a', 'a ', '{a}', '', 'a%c\n', 'a b', '\\x']
    vals = ['1', '{x,y}', '\\x', '', ' v', '{v}=w', '=z', 'x=y', '{{z}}', '{}', ' {s}', '$m,n$', 'v%,\n', '{v}{w}']
    n = rnd.randint(0, 6)
    items = []
    for _ in range(n):
        r = rnd.random()
        k = rnd.choice(keys if rnd.random() < 0.9 else ['\\x'])
        if r < 0.7:
            items.append(k + '=' + rnd.choice(vals))
        elif r < 0.85:
            items.append(k)
        elif r < 0.92:
            items.append('')
        else:
            items.append(rnd.choice(['=', ' ', '==', '=a=', ';', 'a:b']))
    return rnd.choice([',', ',', ', ', ',']).join(items)


def _parses(s):
    try:
        _parse(s)
        return True
    except Exception:
        return False


MAXSPLITS = [None, 0, 1, 2, 3, 4]


def _chars_cases(base, sep, out, combos=None, nt=True):
    for ms, keep, skipn in (combos or itertools.product(MAXSPLITS, (False, True), (True, False))):
        d = dict(base, fn='chars', sep=sep, max_split=ms, keep_empty=keep, skip_none=skipn)
        c = _case(d, nt)
        if c:
            out.append(c)


def _variants(rnd, s, nl):
    """list-shape variants of one source: as parsed / inner list / cut chars nodes / Nones / bare"""
    v = [{'s': s}]
    if _inner_lists(nl):
        v.append({'s': s, 'sel': rnd.randint(1, 4)})
    L = len(s)
    if L >= 2:
        v.append({'s': s, 'cuts': sorted(set(rnd.randint(1, L - 1) for _ in range(rnd.randint(1, 4))))})
        v.append({'s': s, 'cuts': list(range(1, L))})                      # every chars node is one character
    v.append({'s': s, 'nones': sorted(rnd.randint(0, 6) for _ in range(rnd.randint(1, 3))),
              'cuts': ([rnd.randint(1, L - 1)] if L >= 2 and rnd.random() < 0.5 else [])})
    v.append({'s': s, 'bare': True, 'nones': ([0] if rnd.random() < 0.3 else [])})
    return v


def check_space_table():
    got = [c for c in range(0x110000) if chr(c).isspace()]
    rs = re.compile(r'\s')
    bad = [c for c in range(0x3100) if bool(rs.match(chr(c))) != chr(c).isspace()]
    if got != SPACES or bad:
        raise RuntimeError('str.isspace / re \\s differ from the whitespace table of coq/Tree/Split.v: %r %r' % (got, bad))


FIXED = ['a=1,a=2,a=3', 'a=1,b,a=2', ',a,,b,', 'a{x,y},b', 'a%c\n,b', '', ',', 'a\\textbf{x,y}b,c,', 'ab=cd=e',
         'a,b $x,y$ c', 'a, b,  c,d $x$', '=b', 'a==b', '=a=b', 'k={v},k={w}', 'a,,,b', ' a = 1 ,\\x=2',
         'a;b;;c|d||e;|f', 'a b  c\td\n e', '{a,b},{c=d}', 'a=,=,a', 'a , b', ',,', ', ,']


def gen_cases(seed, tier):
    check_space_table()
    rnd = random.Random(seed * 7919 + 18)
    quick = tier == 'quick'
    cases = []
    # ---- (i) fixed corpus: every option combination, every separator kind
    for s in FIXED:
        for sep in SEPS_MAIN:
            _chars_cases({'s': s}, sep, cases)
        for pol in POLICIES:
            for dflt in (0, 1, 2):
                for ex in (True, False):
                    c = _case({'fn': 'keyval', 's': s, 'comma': sep_lit(','), 'eq': sep_lit('='), 'policy': pol,
                               'default': dflt, 'extract': ex})
                    if c:
                        cases.append(c)
    # empty-capable separators: few cases (on an unfixed tree each one is a hang until the timeout)
    for s in ['a,b', '', ' a  b ', 'a{,}b c']:
        for sep in SEPS_EMPTY:
            combos = [(None, False, True), (0, True, True), (1, True, True), (2, False, True), (3, True, False)]
            _chars_cases({'s': s}, sep, cases, combos)
            _chars_cases({'s': s, 'cuts': [1]}, sep, cases, combos[:2])
    # ---- (ii) bounded-exhaustive: all token strings up to length L, separator ',' , all 24 option combinations
    toks = ['a', ',', '=', ' ', '{a,b}', '\\x', '%c\n']
    L = 3 if quick else 5
    for n in range(L + 1):
        for t in itertools.product(toks, repeat=n):
            s = ''.join(t)
            if not _parses(s):
                continue
            if n <= (3 if quick else 4):
                _chars_cases({'s': s}, sep_lit(','), cases, nt=(',' in t))
            else:
                ms, keep, skipn = rnd.choice(MAXSPLITS), rnd.random() < 0.5, True
                _chars_cases({'s': s}, sep_lit(','), cases, [(ms, keep, skipn)], nt=(',' in t))
            if n <= (2 if quick else 3):
                _chars_cases({'s': s, 'cuts': list(range(1, len(s)))}, rnd.choice(SEPS_MAIN), cases,
                             [(ms, keep, True) for ms in (None, 1, 2) for keep in (False, True)], nt=(',' in t))
                for pol in POLICIES:
                    c = _case({'fn': 'keyval', 's': s, 'comma': sep_lit(','), 'eq': sep_lit('='), 'policy': pol,
                               'default': 0, 'extract': True}, nt=('=' in t or 'a' in t))
                    if c:
                        cases.append(c)
    # ---- (iii) random structured content
    nsrc = 70 if quick else 1500
    made = 0
    while made < nsrc:
        s = gen_src(rnd)
        try:
            w, nl = _parse(s)
        except Exception:
            continue
        made += 1
        for base in _variants(rnd, s, nl):
            seps = rnd.sample(SEPS_MAIN, 2 if quick else 3)
            for sep in seps:
                combos = list(itertools.product(MAXSPLITS, (False, True), (True, False)))
                if quick:
                    combos = rnd.sample(combos, 8)
                _chars_cases(base, sep, cases, combos)
            # split_at_node / filter
            for _ in range(3 if quick else 8):
                c = _case(dict(base, fn='node', pred=list(rnd.choice(PREDS)), skip_none=rnd.random() < 0.5,
                               keep_separators=rnd.random() < 0.5, max_split=rnd.choice(MAXSPLITS)))
                if c:
                    cases.append(c)
                c = _case(dict(base, fn='filter', pred=rnd.choice([None] + [list(p) for p in PREDS]),
                               skip_none=rnd.random() < 0.6, skip_comments=rnd.random() < 0.5,
                               skip_ws=rnd.random() < 0.5))
                if c:
                    cases.append(c)
            c = _case(dict(base, fn='aschars'))
            if c:
                cases.append(c)
        # argument views
        nargs = len(_arg_objects(nl))
        for a in range(min(nargs, 4)):
            for d in ({'fn': 'argnl', 's': s, 'arg': a, 'unwrap': True}, {'fn': 'argnl', 's': s, 'arg': a, 'unwrap': False},
                      {'fn': 'argchars', 's': s, 'arg': a},
                      {'fn': 'argkv', 's': s, 'arg': a, 'policy': rnd.choice(POLICIES)}):
                c = _case(d)
                if c:
                    cases.append(c)
    # ---- (iv) key=value content
    nkv = 150 if quick else 4000
    made = 0
    while made < nkv:
        s = gen_kv_src(rnd)
        try:
            w, nl = _parse(s)
        except Exception:
            continue
        made += 1
        bases = [{'s': s}]
        if len(s) >= 2 and rnd.random() < 0.4:
            bases.append({'s': s, 'cuts': [rnd.randint(1, len(s) - 1)]})
        if rnd.random() < 0.2:
            bases.append({'s': s, 'nones': [rnd.randint(0, 3)]})
        for base in bases:
            for pol in POLICIES:
                comma = rnd.choice([sep_lit(','), sep_lit(','), {'k': 1, 's': ','}, sep_lit(';')])
                eq = rnd.choice([sep_lit('='), sep_lit('='), {'k': 1, 's': '='}, sep_lit(':')])
                c = _case(dict(base, fn='keyval', comma=comma, eq=eq, policy=pol, default=rnd.choice([0, 0, 1, 2]),
                               extract=rnd.random() < 0.7))
                if c:
                    cases.append(c)
        c = _case({'fn': 'argkv', 's': '\\textbf{' + s + '}', 'arg': 0, 'policy': rnd.choice(POLICIES)})
        if c:
            cases.append(c)
        c = _case({'fn': 'argkv', 's': '\\item[' + s.replace(']', '') + ']', 'arg': 0, 'policy': rnd.choice(POLICIES)})
        if c and _parses(c['desc']['s']):
            cases.append(c)
    return _spread(cases)


def _spread(cases):
    """the empty-separator cases are the ones that hang on a tree without fix C18-empty-separator:
    spread them over the stream so that the worker pool does not run them one after the other"""
    def slow(c):
        return c['desc']['fn'] == 'chars' and sep_may_be_empty(c['desc']['sep'])
    hang = [c for c in cases if slow(c)]
    rest = [c for c in cases if not slow(c)]
    step = max(1, len(rest) // (len(hang) + 1))
    out = []
    for k, c in enumerate(hang):
        out.extend(rest[k * step:(k + 1) * step])
        out.append(c)
    out.extend(rest[len(hang) * step:])
    return out


def distribution(cases, impl_out):
    fn = collections.Counter(c['desc']['fn'] for c in cases)
    seps = collections.Counter(sep_rx(c['desc']['sep']) for c in cases if c['desc']['fn'] == 'chars')
    opts = collections.Counter('ms=%s keep=%s skip_none=%s' % (c['desc']['max_split'], c['desc']['keep_empty'], c['desc']['skip_none'])
                               for c in cases if c['desc']['fn'] == 'chars')
    pol = collections.Counter(c['desc']['policy'] for c in cases if c['desc']['fn'] in ('keyval', 'argkv'))
    nparts = collections.Counter()
    exc = collections.Counter()
    nkeys = collections.Counter()
    for c, o in zip(cases, impl_out):
        if not isinstance(o, str):
            exc['harness:' + str(o[0])] += 1
            continue
        if o.startswith('EXC'):
            exc[c['desc']['fn'] + ':' + o.split(' ')[1]] += 1
        elif c['desc']['fn'] in ('chars', 'node'):
            nparts[min(o.count('L(') - o.count(',L(') + o.count('],L(') + o.count('[L(') - 1 if False else _count_parts(o), 6)] += 1
        elif c['desc']['fn'] in ('keyval', 'argkv'):
            nkeys[min(o.count('("') if o != '[]' else 0, 6)] += 1
    shapes = collections.Counter(('inner' if c['desc'].get('sel') else '') + ('cuts' if c['desc'].get('cuts') else '')
                                 + ('nones' if c['desc'].get('nones') else '') + ('bare' if c['desc'].get('bare') else '')
                                 or 'as-parsed' for c in cases)
    kinds = collections.Counter()
    for c in cases[::max(1, len(cases) // 400)]:
        try:
            w, nl = _parse(c['desc']['s'])
            for n in treedump.iter_nodes(nl):
                kinds[treedump.kind(n)] += 1
        except Exception:
            pass
    return {'functions': dict(fn), 'separators': dict(seps), 'split_options': dict(opts), 'policies': dict(pol),
            'returned_parts_histogram(6=6+)': dict(nparts), 'keys_histogram(6=6+)': dict(nkeys),
            'exceptions': dict(exc), 'list_shapes': dict(shapes), 'node_kinds_in_sampled_sources': dict(kinds)}


def _count_parts(o):
    """number of top-level L(...) in '[L(..),L(..)]'"""
    depth, n = 0, 0
    for ch in o[1:-1]:
        if ch in '([':
            if depth == 0 and ch == '(':
                n += 1
            depth += 1
        elif ch in ')]':
            depth -= 1
    return n
