"""C19 — a node visitor sees every node exactly once, children first, in
document order, and hands each parent the results of its children.

Coupling (a) of DESIGN 4.2: real trees (strict parses of generated documents,
tolerant parses of token soups, plus directly constructed node objects that
exercise shapes the parsers do not emit) are serialised with treedump.wire and
sent to the model's recording visitor (coq/Tree/Visitor.v: run_recording); the
same trees are visited by a recording subclass of the REAL LatexNodesVisitor
that overrides every visit_* method.  Both print the callback log
(path | method = identity (visited_results_* kwargs)) and the outcome of start().

oracle(): the property itself on the real event log, without the model."""
import random, collections, json
from common import show_str, show_list, pmap
import treedump

PID = 'C19'
PROJECTION = 'visits'
RULE = ('trees obtained from (1) strict parses of generated documents over a context extending the default one '
        'with a macro, an environment and two specials that take arguments (every node kind; present and absent '
        'optional arguments; empty bodies; nesting depth up to 6), (2) tolerant parses of random token soups '
        '(None bodies, None roots), (3) directly constructed node objects (nodeargd=None, node lists in argument '
        'and item position, None items, None bodies, bodies that are not node lists).  Non-trivial: the tree has at '
        'least one node that owns an arguments object or a body with at least one child.')
EXHAUSTIVE = {'quick': False, 'thorough': False}
ASSUMPTIONS = [
    'callbacks are functions of (object identity = path in the tree, object, visited_results_* kwargs); callbacks that '
    'raise or mutate the tree while it is traversed are outside the model',
    'the tree is a tree: no node object occurs at two places (checked on every generated case)',
    'visit_unknown_node (a bare LatexNode instance) is not representable in the model tree type and is only covered by '
    'the oracle on constructed trees',
    'model of the visitor validated against the real class only by this correspondence',
]
PARTIAL = []
REFUTED = []
CASE_TIMEOUT = 8.0
ALWAYS_SEARCH = False
COQCHK = True

KW = {'visited_results_nodelist': 'nl', 'visited_results_arguments': 'args',
      'visited_results_body': 'body', 'visited_results_argnlist': 'argn'}


# ----------------------------------------------------------------------------
# the latex context used for generated documents

_CTX = None


def ctx():
    global _CTX
    if _CTX is None:
        from pylatexenc.latexwalker import get_default_latex_context_db
        from pylatexenc.macrospec import MacroSpec, EnvironmentSpec, SpecialsSpec
        db = get_default_latex_context_db()
        db.add_context_category('c19', prepend=True,
                                macros=[MacroSpec('mymac', '*[{{'), MacroSpec('noargs', '')],
                                environments=[EnvironmentSpec('myenv', '[{'), EnvironmentSpec('plainenv', '')],
                                specials=[SpecialsSpec('!!', '[{'), SpecialsSpec('@', '*')])
        _CTX = db
    return _CTX


def parse(s, tolerant):
    from pylatexenc.latexwalker import LatexWalker
    from pylatexenc.latexnodes.parsers import LatexGeneralNodesParser
    w = LatexWalker(s, latex_context=ctx(), tolerant_parsing=tolerant)
    nl, _ = w.parse_content(LatexGeneralNodesParser())
    return nl


# ----------------------------------------------------------------------------
# constructed trees (json spec -> real node objects)

def build(spec):
    """spec: None | ['C',p,e] | ['#',p,e] | ['G',p,e,body] | ['M',p,e,args] | ['E',p,e,args,body]
    | ['S',p,e,args] | ['$',p,e,body] | ['L',[items]] | ['?',p,e] (bare LatexNode);
    args: None | [items];  body: any spec (a non-'L' node there is the ill-formed case)."""
    from pylatexenc.latexnodes import nodes as N
    from pylatexenc.latexnodes import ParsedArguments
    if spec is None:
        return None
    k = spec[0]
    if k == 'L':
        return N.LatexNodeList([build(x) for x in spec[1]])
    p, e = spec[1], spec[2]

    def args(a):
        if a is None:
            return None
        # the three ways an arguments object comes about: declared specifications, the pylatexenc-2 `argspec`
        # string, and no declaration at all (custom / legacy arguments parsers: the specification list is then EMPTY
        # while the argument list is not) -- the visitor goes by the argument list in each
        al = [build(x) for x in a]
        w = (p + len(a)) % 3
        if w == 0:
            return ParsedArguments(argnlist=al)
        if w == 1:
            return ParsedArguments(argnlist=al, argspec='{' * len(a))
        return ParsedArguments(argnlist=al, arguments_spec_list=['{'] * len(a))
    kw = dict(parsing_state=None, pos=p, pos_end=e)
    if k == 'C':
        return N.LatexCharsNode(chars='x', **kw)
    if k == '#':
        return N.LatexCommentNode(comment='c', comment_post_space='', **kw)
    if k == 'G':
        return N.LatexGroupNode(nodelist=build(spec[3]), delimiters=('{', '}'), **kw)
    if k == 'M':
        return N.LatexMacroNode(macroname='m', nodeargd=args(spec[3]), macro_post_space='', **kw)
    if k == 'E':
        return N.LatexEnvironmentNode(environmentname='e', nodeargd=args(spec[3]), nodelist=build(spec[4]), **kw)
    if k == 'S':
        return N.LatexSpecialsNode(specials_chars='~', nodeargd=args(spec[3]), **kw)
    if k == '$':
        return N.LatexMathNode(displaytype='inline', nodelist=build(spec[3]), delimiters=('$', '$'), **kw)
    if k == '?':
        return N.LatexNode(**kw)
    raise ValueError(spec)


def spec_wellformed(spec, body=False):
    """bodies are None or node lists; no bare LatexNode"""
    if spec is None:
        return True
    k = spec[0]
    if k == 'L':
        return all(spec_wellformed(x) for x in spec[1])
    if body or k == '?':
        return False
    ok = True
    if k in 'MES':
        ok = ok and (spec[3] is None or all(spec_wellformed(x) for x in spec[3]))
    if k in 'G$':
        ok = ok and spec_wellformed(spec[3], body=(spec[3] is not None and spec[3][0] != 'L'))
    if k == 'E':
        ok = ok and spec_wellformed(spec[4], body=(spec[4] is not None and spec[4][0] != 'L'))
    return ok


def rnd_spec(rnd, depth, pos, bad=0.0):
    """random tree over the whole model type; positions increase so identities are mostly distinct"""
    def nxt():
        pos[0] += 1
        return pos[0]

    def items(d, allow_list=True):
        n = rnd.choice([0, 0, 1, 1, 2, 3])
        return [None if rnd.random() < 0.2 else rnd_spec(rnd, d, pos, bad) for _ in range(n)]

    def args(d):
        if rnd.random() < 0.25:
            return None
        return items(d)

    def body(d):
        r = rnd.random()
        if r < 0.2:
            return None
        if r < 0.2 + bad:
            return rnd_spec(rnd, 0, pos, 0.0) if rnd.random() < 0.7 else ['C', nxt(), nxt()]
        return ['L', items(d)]
    p = nxt()
    if depth <= 0:
        k = rnd.choice('C#CMS')
    else:
        k = rnd.choice('C#GMES$LGMES$')
    d = depth - 1
    if k in 'C#':
        return [k, p, nxt()]
    if k == 'G' or k == '$':
        b = body(d)
        return [k, p, nxt(), b]
    if k == 'M' or k == 'S':
        a = args(d)
        return [k, p, nxt(), a]
    if k == 'E':
        a = args(d)
        b = body(d)
        return [k, p, nxt(), a, b]
    return ['L', items(d)]


# ----------------------------------------------------------------------------
# document generators

def gen_doc(rnd, depth, math=False):
    """a strictly parseable document with every construct; nested up to depth"""
    def sub(d=None, m=None):
        return gen_doc(rnd, (depth - 1) if d is None else d, math if m is None else m)

    def seq(n, d=None, m=None):
        return ''.join(sub(d, m) for _ in range(rnd.randint(0, n)))
    if depth <= 0:
        return rnd.choice(['a', 'bc', ' ', 'x y', '~', '\\alpha ', '\\noargs ', '%c\n', '``', '{}', '@', '@*', '\\&'])
    c = rnd.randint(0, 27)
    if c == 0:
        return 'abc'[rnd.randint(0, 2)] + seq(2)
    if c == 1:
        return '{' + seq(3) + '}'
    if c == 2:
        return '%' + rnd.choice(['', 'c', 'c d']) + '\n' + rnd.choice(['', ' '])
    if c == 3:
        return '\\textbf{' + seq(3) + '}'
    if c == 4:
        return '\\sqrt' + rnd.choice(['', '[' + seq(1) + ']']) + '{' + seq(2) + '}'
    if c == 5:
        return '\\frac{' + seq(2) + '}{' + seq(2) + '}'
    if c == 6:
        return '\\frac' + rnd.choice(['1', 'x', '\\alpha ', '{' + seq(1) + '}']) + rnd.choice(['2', '\\beta ', '{' + seq(1) + '}'])
    if c == 7:
        return ('\\mymac' + rnd.choice(['', '*']) + rnd.choice(['', '[' + seq(2) + ']'])
                + '{' + seq(2) + '}' + rnd.choice(['{' + seq(2) + '}', 'z', '\\textbf{' + seq(1) + '}']))
    if c == 8:
        return '!!' + rnd.choice(['', '[' + seq(2) + ']']) + '{' + seq(2) + '}'
    if c == 9:
        return rnd.choice(['@', '@*', '~', '``', "''", '---', '&'])
    if c == 10:
        return '\\begin{myenv}' + rnd.choice(['', '[' + seq(2) + ']']) + '{' + seq(2) + '}' + seq(3) + '\\end{myenv}'
    if c == 11:
        return '\\begin{plainenv}' + seq(3) + '\\end{plainenv}'
    if c == 12:
        return '\\begin{unknownenv}' + seq(2) + '\\end{unknownenv}'
    if c == 13:
        return '\\begin{tabular}{cc}' + seq(2) + '&' + seq(2) + '\\\\' + rnd.choice(['', '*', '[2pt]', '*[2pt]']) + seq(1) + '\\end{tabular}'
    if c == 14:
        return '\\begin{itemize}' + ''.join('\\item' + rnd.choice(['', '[' + seq(1) + ']', ' ']) + seq(2)
                                            for _ in range(rnd.randint(0, 3))) + '\\end{itemize}'
    if c == 15 and not math:
        return '$' + seq(3, m=True) + '$'
    if c == 16 and not math:
        return rnd.choice(['$$%s$$', '\\[%s\\]', '\\(%s\\)']) % seq(3, m=True)
    if c == 17 and not math:
        return '\\begin{equation}' + seq(3, m=True) + '\\end{equation}'
    if c == 18 and not math:
        return '\\begin{verbatim}' + rnd.choice(['', 'x', '\\a{ %$']) + '\\end{verbatim}'
    if c == 19 and not math:
        return '\\verb' + rnd.choice(['|a|', '+{+', '**']) + ' '
    if c == 20:
        return '\\section' + rnd.choice(['', '*']) + rnd.choice(['', '[' + seq(1) + ']']) + '{' + seq(2) + '}'
    if c == 21:
        return '\\emph ' + rnd.choice(['x', '\\alpha ', '{' + seq(2) + '}'])
    if c == 22:
        return '\\begin{array}' + rnd.choice(['', '[t]']) + '{c}' + seq(2) + '\\end{array}'
    if c == 23:
        return '\\noargs ' + seq(1)
    if c == 24:
        return '{' * min(depth, 4) + seq(1, d=0) + '}' * min(depth, 4)
    if c == 25:
        return '\\textbf{\\textit{\\emph{' + seq(2) + '}}}'
    if c == 26:
        return '\\mymac{}{}' + '!!{}' + '\\begin{myenv}{}\\end{myenv}' + ('' if math else '$$ $$')
    return seq(3)


SOUP = ['a', 'b', ' ', '\n', '\n\n', '{', '}', '$', '$$', '\\(', '\\)', '\\[', '\\]', '\\begin{e}', '\\end{e}',
        '\\textbf', '%c\n', '[', ']', '\\begin{itemize}', '\\end{itemize}', '\\item', '~', '\\begin{tabular}',
        '\\end{tabular}', '\\begin{equation}', '\\end{equation}', '\\verb|x|', '\\begin{verbatim}', '\\end{verbatim}',
        '\\\\', '*', '&', '``', '\\frac', '\\sqrt', '\\section', '\\mymac', '!!', '@', '\\begin{myenv}', '\\end{myenv}',
        '\\begin', '\\end', '{x}', '[y]', '\\', '%']


def gen_soup(rnd):
    return ''.join(rnd.choice(SOUP) for _ in range(rnd.randint(1, 14)))


# ----------------------------------------------------------------------------
# trees -> cases

def tree_of(desc):
    """rebuild the real tree a case is about (deterministic)"""
    k = desc['kind']
    if k == 'built':
        return build(desc['spec'])
    return parse(desc['s'], k == 'tolerant')


def _prep(desc):
    """worker: desc -> (wire ints, stats) or None when the input does not yield a tree"""
    try:
        t = tree_of(desc)
    except Exception as e:
        return ('no-tree', type(e).__name__)
    try:
        w = treedump.wire(t)
    except ValueError:
        return ('unrepresentable', None)
    st = tree_stats(t)
    return ('ok', [1900] + w, st)


def objects(root):
    """Independent enumeration (pre-order) of everything the visitor is expected to call back on:
    [(path, obj, role)], role in 'node','list','args'.  Body node lists are not listed.
    Also returns the expected children per object id: [(child-or-None)] in document order
    as (args_obj, argument/body slot lists)."""
    out = []
    from pylatexenc.latexnodes import nodes as N

    def go(n, p):
        if n is None:
            return
        k = treedump.kind(n)
        if k == 'L':
            out.append((p, n, 'list'))
            for i, x in enumerate(n if isinstance(n, (list, tuple)) else n.nodelist):
                go(x, p + '/i%d' % i)
            return
        out.append((p, n, 'node'))
        pa = getattr(n, 'nodeargd', None)
        if k in 'MES' and pa is not None:
            out.append((p + '/A', pa, 'args'))
            for i, x in enumerate(pa.argnlist):
                go(x, p + '/A/a%d' % i)
        if k in 'GE$':
            b = n.nodelist
            if b is not None and treedump.kind(b) == 'L':
                for i, x in enumerate(b):
                    go(x, p + '/b%d' % i)
    go(root, '')
    return out


def tree_stats(t):
    if t is None:
        return {'none_root': 1}
    c = collections.Counter()
    objs = objects(t)
    depth = 0
    for p, o, role in objs:
        depth = max(depth, p.count('/'))
        if role == 'node':
            k = treedump.kind(o)
            c['kind_' + k] += 1
            if k in 'MES':
                pa = o.nodeargd
                if pa is None:
                    c['nodeargd_none'] += 1
                else:
                    c['args_objects'] += 1
                    c['arg_slots_none'] += sum(1 for x in pa.argnlist if x is None)
                    c['arg_slots_present'] += sum(1 for x in pa.argnlist if x is not None)
            if k in 'GE$':
                b = o.nodelist
                if b is None:
                    c['body_none_' + k] += 1
                elif treedump.kind(b) != 'L':
                    c['body_not_a_list'] += 1
                elif isinstance(b, (list, tuple)):
                    c['body_plain_python_list'] += 1
                elif len(b) == 0:
                    c['body_empty_' + k] += 1
                else:
                    c['body_nonempty'] += 1
        elif role == 'list':
            c['lists_visited'] += 1
            c['list_items_none'] += sum(1 for x in (o if isinstance(o, (list, tuple)) else o.nodelist) if x is None)
    c['depth'] = depth
    c['objects'] = len(objs)
    c['shared_objects'] = len(objs) - len({id(o) for _, o, _ in objs})
    return dict(c)


def _mk(desc, r):
    st = r[2]
    nt = (st.get('args_objects', 0) + st.get('body_nonempty', 0)) > 0 and st.get('objects', 0) >= 3
    return {'wire': r[1], 'desc': desc, 'nt': nt, 'stats': st}


def case_from_desc(desc):
    r = _prep(desc)
    if r[0] != 'ok':
        raise ValueError('no tree for %r: %r' % (desc, r))
    return _mk(desc, r)


FIXED_DOCS = [
    '', 'a', '{}', '$$ $$', '$a$', '\\(\\)', '%\n', '~', '@', '@*', '!!{}', '!![o]{m}', '\\mymac{}{}',
    '\\mymac*[o]{a}{b}', '\\noargs', '\\begin{myenv}{}\\end{myenv}', '\\begin{myenv}[o]{a}b\\end{myenv}',
    '\\begin{plainenv}\\end{plainenv}', '\\begin{verbatim}\\end{verbatim}', '\\verb|x|', '\\sqrt2', '\\sqrt[3]{2}',
    '\\frac\\alpha{\\beta}', '\\item[x]', '\\\\*[3pt]', '\\begin{tabular}{c}a&b\\end{tabular}',
    '\\textbf{\\textbf{\\textbf{\\textbf{\\textbf{\\textbf{x}}}}}}', '{{{{{{}}}}}}',
    '$\\frac{\\sqrt[n]{x}}{\\mymac*{1}{2}}$', '\\begin{myenv}{\\begin{myenv}{a}b\\end{myenv}}$x$%c\n\\end{myenv}',
]
FIXED_SOUPS = ['{', 'a{', '$', 'a$b', '\\(', '\\begin{e}', '\\begin{myenv}', '\\begin{myenv}{a}b', '}', 'a}b',
               '\\end{e}', '\\textbf', '\\mymac', '\\mymac[', '!!', '!![', '\\begin{itemize}\\item[', '{$}', '$ { $',
               '\\begin{equation}a', '\\sqrt[', '\\frac{a', '\\textbf{a}b}c']
FIXED_BUILT = [
    None,
    ['C', 0, 1], ['#', 0, 1], ['G', 0, 2, None], ['$', 0, 2, None], ['E', 0, 9, None, None], ['M', 0, 2, None],
    ['S', 0, 1, None], ['M', 0, 2, []], ['L', []], ['L', [None]], ['L', [None, ['C', 0, 1], None]],
    ['M', 0, 9, [None, ['L', [['C', 3, 4], None]], ['C', 5, 6]]],
    ['E', 0, 9, [None, None], ['L', []]], ['E', 0, 9, [['C', 1, 2]], ['L', [['C', 3, 4]]]],
    ['L', [['L', [['L', []]]]]],
    ['G', 0, 3, ['C', 1, 2]], ['$', 0, 3, ['M', 1, 2, None]], ['E', 0, 9, [['C', 1, 2]], ['C', 3, 4]],
    ['L', [['C', 0, 1], ['G', 1, 4, ['C', 2, 3]], ['C', 4, 5]]],
    ['G', 0, 9, ['G', 1, 8, ['L', []]]],
]


def gen_cases(seed, tier):
    rnd = random.Random(seed * 7919 + 19)
    big = tier != 'quick'
    descs = []
    for s in FIXED_DOCS:
        descs.append({'kind': 'strict', 's': s})
        descs.append({'kind': 'tolerant', 's': s})
    for s in FIXED_SOUPS:
        descs.append({'kind': 'tolerant', 's': s})
    for sp in FIXED_BUILT:
        descs.append({'kind': 'built', 'spec': sp})
    for _ in range(40000 if big else 4000):
        descs.append({'kind': 'strict', 's': gen_doc(rnd, rnd.choice([1, 2, 2, 3, 3, 4, 5, 6]))})
    for _ in range(40000 if big else 4000):
        descs.append({'kind': 'tolerant', 's': gen_soup(rnd)})
    for _ in range(6000 if big else 600):                       # valid documents through the tolerant parser
        descs.append({'kind': 'tolerant', 's': gen_doc(rnd, rnd.choice([1, 2, 3]))})
    for _ in range(25000 if big else 2500):
        bad = 0.15 if rnd.random() < 0.2 else 0.0
        descs.append({'kind': 'built', 'spec': rnd_spec(rnd, rnd.choice([1, 2, 3, 4, 5]), [0], bad)})
    # trailing backslashes make the tolerant parser hang (F1, a C06/C11 matter): not a tree
    descs = [d for d in descs if not (d['kind'] == 'tolerant' and d['s'].endswith('\\'))]
    prep = pmap(_prep, descs, secs=CASE_TIMEOUT)
    cases, seen, none_roots = [], set(), 0
    global _SKIPPED
    _SKIPPED = collections.Counter()
    for d, r in zip(descs, prep):
        if not (isinstance(r, tuple) and r and r[0] == 'ok'):
            _SKIPPED[str(r[0]) + ':' + str(r[1] if len(r) > 1 else '')] += 1
            continue
        if r[2].get('none_root'):
            none_roots += 1
            if none_roots > 25:              # start(None): keep a few, they all look the same
                _SKIPPED['none-root-beyond-25'] += 1
                continue
        key = (d['kind'] == 'built', tuple(r[1]))
        if key in seen:
            _SKIPPED['duplicate-tree'] += 1
            continue
        seen.add(key)
        cases.append(_mk(d, r))
    return cases


_SKIPPED = collections.Counter()


# ----------------------------------------------------------------------------
# the recording subclass of the real visitor

def _ident(o):
    k = treedump.kind(o)
    if k == 'L':
        return 'L%s:%s' % ('-' if o.pos is None else o.pos, '-' if o.pos_end is None else o.pos_end)
    if k is not None and k != '?':
        return '%s%d:%d' % (k, o.pos, o.pos_end)
    if hasattr(o, 'argnlist'):
        return 'A%d' % len(o.argnlist)
    return '?' + type(o).__name__


def _subject(o):
    if hasattr(o, 'argnlist') and treedump.kind(o) == '?':
        return _ident(o) + show_list(treedump._argspec_chars(o), show_str)
    return _ident(o)


def _val(v):
    if v is None:
        return 'None'
    if isinstance(v, str):
        return "''" if v == '' else v
    if isinstance(v, list):
        return '[' + ','.join('_' if x is None else (x if isinstance(x, str) else repr(x)) for x in v) + ']'
    return repr(v)


def make_recorder(paths, result_of):
    """a LatexNodesVisitor subclass instance overriding every visit_* method.
    raw log entries: (method char, object, kwargs dict, returned value)"""
    from pylatexenc.latexnodes.nodes import LatexNodesVisitor

    class Recorder(LatexNodesVisitor):
        def __init__(self):
            super(Recorder, self).__init__()
            self.raw = []

        def _rec(self, m, obj, kw):
            r = result_of(obj, len(self.raw))
            self.raw.append((m, obj, kw, r))
            return r

        def visit(self, node, **kw):
            return self._rec('v', node, kw)

        def visit_chars_node(self, node, **kw):
            return self._rec('C', node, kw)

        def visit_comment_node(self, node, **kw):
            return self._rec('#', node, kw)

        def visit_group_node(self, node, **kw):
            return self._rec('G', node, kw)

        def visit_macro_node(self, node, **kw):
            return self._rec('M', node, kw)

        def visit_environment_node(self, node, **kw):
            return self._rec('E', node, kw)

        def visit_specials_node(self, node, **kw):
            return self._rec('S', node, kw)

        def visit_math_node(self, node, **kw):
            return self._rec('$', node, kw)

        def visit_node_list(self, nodes, **kw):
            return self._rec('L', nodes, kw)

        def visit_parsed_arguments(self, parsed_args, **kw):
            return self._rec('A', parsed_args, kw)

        def visit_unknown_node(self, node, **kw):
            return self._rec('?', node, kw)
    return Recorder()


def impl(c):
    t = tree_of(c['desc'])
    paths = {id(o): p for p, o, _ in objects(t)} if t is not None else {}
    v = make_recorder(paths, lambda o, i: _ident(o))
    try:
        r = v.start(t)
        out = '=>' + (r if isinstance(r, str) else repr(r))
    except Exception as e:
        out = 'EXC ' + type(e).__name__
    ev = []
    for m, o, kw, _ in v.raw:
        ev.append('%s|%s=%s(%s);' % (paths.get(id(o), '<not-in-tree>'), m, _subject(o),
                                     ','.join('%s=%s' % (KW.get(k, k), _val(x)) for k, x in kw.items())))
    return ''.join(ev) + out


# ----------------------------------------------------------------------------
# the property itself on the real event log

EXPECT_METHOD = {'C': 'C', '#': '#', 'G': 'G', 'M': 'M', 'E': 'E', 'S': 'S', '$': '$', 'L': 'L'}


def oracle(c):
    d = c['desc']
    t = tree_of(d)
    if t is None:
        return None                      # nothing was parsed: no tree to visit
    if d['kind'] == 'built' and not spec_wellformed(d['spec']):
        return None                      # not a tree any parser can return (body that is not a node list / bare LatexNode)
    objs = objects(t)
    byid = {id(o): (p, o, role) for p, o, role in objs}
    if len(byid) != len(objs):
        return ('harness:shared-node-object', {'note': 'the same object occurs twice in the tree'})
    v = make_recorder({}, lambda o, i: ('result', i))
    try:
        top = v.start(t)
    except Exception as e:
        return ('visitor-raised', {'exception': type(e).__name__, 'message': str(e)[:200],
                                   'events_before': len(v.raw)})
    raw = v.raw
    where = lambda o: byid[id(o)][0] + '|' + _ident(o) if id(o) in byid else '<not-in-tree>|' + _ident(o)
    # (1) every node exactly once, by the callback of its class
    count = collections.Counter(id(o) for _, o, _, _ in raw)
    index = {}
    for i, (m, o, kw, r) in enumerate(raw):
        index.setdefault(id(o), i)
    for n in treedump.iter_nodes(t):
        if count[id(n)] == 0:
            return ('node-not-visited', {'node': where(n)})
        if count[id(n)] > 1:
            return ('node-visited-twice', {'node': where(n), 'times': count[id(n)]})
    for p, o, role in objs:
        if count[id(o)] != 1:
            return ('%s-visited-%d-times' % (role, count[id(o)]), {'object': where(o)})
    for m, o, kw, r in raw:
        if id(o) not in byid:
            return ('callback-on-unexpected-object', {'method': m, 'object': _ident(o)})
        role = byid[id(o)][2]
        want = 'A' if role == 'args' else EXPECT_METHOD.get(treedump.kind(o), '?')
        if m != want:
            return ('wrong-callback-for-class', {'method': m, 'expected': want, 'object': where(o)})
    # (2)+(3) children first, in document order; results handed over in that order
    res = {id(o): r for _, o, _, r in raw}

    def slots(lst):
        return [None if x is None else x for x in lst]
    for m, o, kw, r in raw:
        p, _, role = byid[id(o)]
        k = treedump.kind(o)
        children = []          # all child objects in document order (arguments object first)
        exp = {}
        if role == 'args':
            children = [x for x in o.argnlist if x is not None]
            exp['visited_results_argnlist'] = [None if x is None else res[id(x)] for x in o.argnlist]
        elif role == 'list':
            its = list(o if isinstance(o, (list, tuple)) else o.nodelist)
            children = [x for x in its if x is not None]
            exp['visited_results_nodelist'] = [None if x is None else res[id(x)] for x in its]
        else:
            if k in 'MES':
                pa = o.nodeargd
                if pa is None:
                    exp['visited_results_arguments'] = ''
                else:
                    children.append(pa)
                    exp['visited_results_arguments'] = res[id(pa)]
            if k in 'GE$':
                b = o.nodelist
                name = 'visited_results_body' if k == 'E' else 'visited_results_nodelist'
                if b is None:
                    exp[name] = None if k == '$' else []
                else:
                    children += [x for x in b if x is not None]
                    exp[name] = [None if x is None else res[id(x)] for x in b]
        me = index[id(o)]
        last = -1
        for ch in children:
            ci = index[id(ch)]
            if ci > me:
                return ('child-after-parent', {'parent': where(o), 'child': where(ch)})
            if ci < last:
                return ('children-out-of-document-order', {'parent': where(o), 'child': where(ch)})
            last = ci
        if list(kw.keys()) != list(exp.keys()):
            return ('wrong-keyword-arguments', {'object': where(o), 'observed': list(kw.keys()), 'expected': list(exp.keys())})
        for name in exp:
            if kw[name] != exp[name] or type(kw[name]) is not type(exp[name]):
                return ('wrong-children-results', {'object': where(o), 'kwarg': name,
                                                   'observed': repr(kw[name])[:300], 'expected': repr(exp[name])[:300]})
    # strict post-order: the log is exactly the post-order walk of the expected objects
    order = []

    def post(n):
        if n is None:
            return
        k = treedump.kind(n)
        if k == 'L':
            for x in (n if isinstance(n, (list, tuple)) else n.nodelist):
                post(x)
            order.append(id(n))
            return
        pa = getattr(n, 'nodeargd', None)
        if k in 'MES' and pa is not None:
            for x in pa.argnlist:
                post(x)
            order.append(id(pa))
        if k in 'GE$' and n.nodelist is not None:
            for x in n.nodelist:
                post(x)
        order.append(id(n))
    post(t)
    got = [id(o) for _, o, _, _ in raw]
    if got != order:
        i = next(j for j in range(min(len(got), len(order)) + 1)
                 if j >= len(got) or j >= len(order) or got[j] != order[j])
        return ('not-post-order', {'first_difference_at_event': i,
                                   'observed': where(raw[i][1]) if i < len(raw) else None})
    if top is not res[id(t)] and top != res[id(t)]:
        return ('start-does-not-return-root-result', {'observed': repr(top)[:100]})
    if d['kind'] != 'built':
        # an argument that was not written is a None placeholder - also when the call is the last thing in the input -,
        # never an empty node list standing for "nothing was there"
        from pylatexenc.latexnodes import nodes as N
        for p, o, role in objs:
            if role == 'args':
                for j, a in enumerate(o.argnlist or []):
                    if isinstance(a, N.LatexNodeList) and len(a.nodelist) == 0:
                        return ('absent-argument-is-not-a-None-placeholder', {'arguments': where(o), 'slot': j})
        return _recomposer_order(t, where)
    return None


def _recomposer_order(t, where):
    """the library's own visitor that descends by itself (the LaTeX recomposer): its leaf callbacks (characters,
    comments) are called once per leaf node and in document order - arguments before body"""
    from pylatexenc.latexnodes import LatexNodesLatexRecomposer
    log = []

    class R(LatexNodesLatexRecomposer):
        def recompose_chars(self, chars, n):
            log.append(n)
            return super(R, self).recompose_chars(chars, n)

        def recompose_comment(self, comment, comment_post_space, n):
            log.append(n)
            return super(R, self).recompose_comment(comment, comment_post_space, n)
    try:
        out = R().latex_recompose(t)
    except Exception as e:
        return ('recomposer-raised', {'exception': type(e).__name__, 'message': str(e)[:200]})
    if not isinstance(out, str):
        return ('recomposer-returned-non-string', {'type': type(out).__name__})
    leaves = [n for n in treedump.iter_nodes(t) if treedump.kind(n) in ('C', '#')]       # pre-order = document order
    if len(log) != len(leaves) or any(a is not b for a, b in zip(log, leaves)):
        i = next((j for j in range(min(len(log), len(leaves))) if log[j] is not leaves[j]), min(len(log), len(leaves)))
        return ('recomposer-leaves-not-once-in-document-order', {
            'at': i, 'observed': where(log[i]) if i < len(log) else None, 'expected': where(leaves[i]) if i < len(leaves) else None})
    return None


def distribution(cases, impl_out):
    tot = collections.Counter()
    kinds = collections.Counter()
    depth = collections.Counter()
    size = collections.Counter()
    outcome = collections.Counter()
    for c, i in zip(cases, impl_out):
        kinds[c['desc']['kind']] += 1
        for k, v in c.get('stats', {}).items():
            if k not in ('depth', 'objects'):
                tot[k] += v
        depth[min(c.get('stats', {}).get('depth', 0), 12)] += 1
        n = c.get('stats', {}).get('objects', 0)
        size['0' if n == 0 else '1-3' if n <= 3 else '4-10' if n <= 10 else '11-30' if n <= 30 else '31-100' if n <= 100 else '>100'] += 1
        if isinstance(i, str):
            outcome['raised ' + i.split('EXC ')[-1] if 'EXC ' in i[-40:] else 'returned'] += 1
        else:
            outcome['harness:' + str(i[0])] += 1
    return {'tree_sources': dict(kinds), 'totals_over_all_trees': dict(tot),
            'path_depth_histogram(12=12+)': {str(k): v for k, v in sorted(depth.items())},
            'objects_per_tree': dict(size), 'start_outcome': dict(outcome),
            'inputs_not_used': dict(_SKIPPED)}
