"""C20 — positions map to the right line and column, also in error reports."""
import itertools, random
from common import w_str, w_opt, w_list

PID = 'C20'
PROJECTION = 'linecol'
RULE = ('every string up to length L over {a, \\n, \\r, space} x every position 0..len x offset settings '
        '(None/defaults, shifted, negative); plus strict-mode parse errors of random faulty multi-line documents '
        '(lineno/colno of the error compared with the model at the error position). Non-trivial: the string '
        'contains a newline and has length >= 2.')
EXHAUSTIVE = {'quick': True, 'thorough': True}
ASSUMPTIONS = ['bisect.bisect_right meets its specification on sorted lists (CPython C code, trusted)',
               'model of the newline scan validated only by this correspondence']
ALPHA = 'a\n\r '
OFFSETS = [(None, None, None), (1, 0, 0), (5, 3, -2), (0, 7, 1), (-3, -1, 0)]
ALWAYS_SEARCH = False


def _case(s, offs, kind='pos'):
    lo, fo, co = offs
    wire = [2000] + w_opt(lo) + w_opt(fo) + w_opt(co) + w_str(s) + w_list(list(range(len(s) + 1)))
    return {'wire': wire, 'desc': {'s': s, 'offsets': list(offs), 'kind': kind},
            'nt': ('\n' in s and len(s) >= 2)}


def case_from_desc(d):
    return _case(d['s'], tuple(d['offsets']), d.get('kind', 'pos'))


def gen_cases(seed, tier):
    L = 6 if tier == 'quick' else 8
    rnd = random.Random(seed)
    cases = []
    for n in range(L + 1):
        for t in itertools.product(ALPHA, repeat=n):
            s = ''.join(t)
            if n <= 4:
                for o in OFFSETS:
                    cases.append(_case(s, o))
            else:
                cases.append(_case(s, OFFSETS[(hash(s) if False else sum(map(ord, s)) + n) % len(OFFSETS)]))
    # longer random strings
    for _ in range(300 if tier == 'quick' else 3000):
        n = rnd.randint(7, 60)
        s = ''.join(rnd.choice('ab \n\n\r\t') for _ in range(n))
        cases.append(_case(s, rnd.choice(OFFSETS)))
    # parse errors on faulty multi-line documents
    toks = ['a', 'b', ' ', '\n', '\n\n', '{', '}', '$', '\\(', '\\)', '\\[', '\\]', '\\begin{e}', '\\end{e}',
            '\\textbf', '%c\n', '[', ']', '\\begin{itemize}', '\\end{itemize}', '\\item', '~']
    for _ in range(600 if tier == 'quick' else 6000):
        n = rnd.randint(1, 14)
        s = ''.join(rnd.choice(toks) for _ in range(n))
        cases.append(_case(s, rnd.choice(OFFSETS), 'err'))
    # the same through the other documented ways of starting a parse (a parser object of another kind, the
    # pylatexenc-2 methods), from every start position; token-level faults included (real code only)
    toks2 = toks + ['\\', '\\begin', '\\end ', '\\begin x']
    for _ in range(250 if tier == 'quick' else 3000):
        n = rnd.randint(1, 8)
        s = ''.join(rnd.choice(toks2) for _ in range(n))
        cases.append(_case(s, rnd.choice(OFFSETS[2:]), 'err-entry'))
    return cases


def _walker(d):
    from pylatexenc.latexwalker import LatexWalker
    lo, fo, co = d['offsets']
    return LatexWalker(d['s'], tolerant_parsing=False, line_number_offset=lo,
                       first_line_column_offset=fo, column_offset=co)


def _strict_error(d):
    from pylatexenc.latexwalker import LatexWalkerParseError
    from pylatexenc.latexnodes.parsers import LatexGeneralNodesParser
    w = _walker(d)
    try:
        w.parse_content(LatexGeneralNodesParser())
    except LatexWalkerParseError as e:
        return e
    except Exception:
        return None          # other exception classes are C05's business
    return None


ENTRIES = ['expression-parser', 'group-parser', 'get_latex_expression', 'get_latex_braced_group', 'get_latex_nodes',
           'get_latex_maybe_optional_arg', 'get_token']


def _entry_errors(d):
    """every (entry point, start position) -> the located parse error it raises, if any"""
    import warnings
    from pylatexenc.latexwalker import LatexWalkerParseError
    from pylatexenc.latexnodes.parsers import LatexExpressionParser, LatexDelimitedGroupParser
    out = []
    s = d['s']
    with warnings.catch_warnings():
        warnings.simplefilter('ignore')
        for entry in ENTRIES:
            for pos in range(len(s) + 1):
                w = _walker(d)
                try:
                    if entry == 'expression-parser':
                        w.parse_content(LatexExpressionParser(), token_reader=w.make_token_reader(pos=pos))
                    elif entry == 'group-parser':
                        w.parse_content(LatexDelimitedGroupParser(delimiters=('{', '}')), token_reader=w.make_token_reader(pos=pos))
                    elif entry == 'get_token':
                        w.get_token(pos)
                    else:
                        getattr(w, entry)(pos)
                except LatexWalkerParseError as e:
                    out.append((entry, pos, e))
                except Exception:
                    pass                     # other exception classes are C05's / C16's business
    return out


def impl(c):
    d = c['desc']
    if d['kind'] == 'err-entry':
        return 'NOERR'
    if d['kind'] == 'err':
        e = _strict_error(d)
        if e is None or e.pos is None:
            return 'NOERR'
        return 'E %d %s:%s' % (e.pos, e.lineno, e.colno)
    w = _walker(d)
    return ' '.join('%d:%d' % w.pos_to_lineno_colno(p) for p in range(len(d['s']) + 1))


def same(m, i, c):
    if c['desc']['kind'] not in ('err', 'err-entry'):
        return m == i
    if i == 'NOERR':
        return True
    _, p, lc = i.split(' ')
    ms = m.split(' ')
    return int(p) < len(ms) and ms[int(p)] == lc


def _expected(d, p):
    s = d['s']
    lo, fo, co = [x if x is not None else dflt for x, dflt in zip(d['offsets'], (1, 0, 0))]
    k = s.count('\n', 0, p)
    start = s.rfind('\n', 0, p) + 1
    return (k + lo, p - start + (fo if k == 0 else co))


def oracle(c):
    d = c['desc']
    if d['kind'] == 'err-entry':
        for entry, pos, e in _entry_errors(d):
            if e.pos is None or (e.lineno is None and e.colno is None):
                continue                 # an error that reports no line / column (raised below parse_content, e.g.
                                         # by get_token itself) reports no wrong one
            exp = _expected(d, e.pos)
            if (e.lineno, e.colno) != exp:
                return ('error-linecol-mismatch', {'entry_point': entry, 'start': pos, 'pos': e.pos,
                                                   'observed': [e.lineno, e.colno], 'expected': list(exp)})
        return None
    if d['kind'] == 'err':
        e = _strict_error(d)
        if e is None:
            return None
        if e.pos is None:
            if e.lineno is None and e.colno is None:
                return None
            return ('error-linecol-without-pos', {'observed': [e.lineno, e.colno]})
        exp = _expected(d, e.pos)
        if (e.lineno, e.colno) != exp:
            return ('error-linecol-mismatch', {'pos': e.pos, 'observed': [e.lineno, e.colno], 'expected': list(exp)})
        return None
    w = _walker(d)
    for p in range(len(d['s']) + 1):
        got = w.pos_to_lineno_colno(p)
        exp = _expected(d, p)
        if tuple(got) != exp:
            return ('linecol-mismatch', {'pos': p, 'observed': list(got), 'expected': list(exp)})
        dd = w.pos_to_lineno_colno(p, as_dict=True)
        if (dd['lineno'], dd['colno']) != exp:
            return ('linecol-dict-mismatch', {'pos': p, 'observed': dd, 'expected': list(exp)})
    if w.pos_to_lineno_colno(None) != (None, None):
        return ('linecol-none', {})
    return None


def distribution(cases, impl_out):
    import collections
    k = collections.Counter(c['desc']['kind'] for c in cases)
    errs = sum(1 for c, i in zip(cases, impl_out) if c['desc']['kind'] == 'err' and isinstance(i, str) and i.startswith('E '))
    lens = collections.Counter(min(len(c['desc']['s']), 10) for c in cases)
    return {'kinds': dict(k), 'error_cases_that_raised_located_error': errs, 'length_histogram(10=10+)': dict(lens)}
