"""C04 — encoder output equals the documented rule semantics.

Case = (configuration, input string) or a call history of the module-level
helper.  The configuration is a first-order description (see
coq/Enc/Family.v); `_mk_*` below are the Python twins of the Coq family:
they turn the description into real `re` patterns, callables and
`UnicodeToLatexConversionRule` objects.  `impl` runs the real encoders;
`oracle` compares them with an independent reference encoder written from
the documentation and checks the exception clause."""
import re, random, unicodedata, json
from common import w_str, w_opt, w_list, w_bool, show_str, show_list, CaseTimeout

PID = 'C04'
PROJECTION = 'latex'
RULE = ('generated configurations (rule lists mixing dict / regex / callable rules from the twin family, overlapping '
        'matches, multi-character consumption, look-behind callable, each protection globally and per rule incl. a '
        'callable, each unknown-char policy incl. a callable, non_ascii_only, str and chunk-list result classes, plain '
        'and partial encoder with several keep_latex_chars) x strings over every key of both built-in tables (swept), '
        'all ASCII, control / astral / combining / unassigned / surrogate code points, LaTeX token soups; plus call '
        'histories of the module-level cached helper.  Non-trivial: at least one rule application or unknown-char '
        'action changes the text.')
EXHAUSTIVE = {'quick': False, 'thorough': False}
ASSUMPTIONS = [
    'unicodedata.normalize("NFC") is outside the model: the model receives the normalised string',
    'Python re implements the six pattern shapes (two of them look at the character before the position) of the twin family and m.expand as modelled (rx_match / expand)',
    'str.isalpha / str.isspace tables are taken from the running interpreter (Gen/GenEncChars.v)',
    'keep rule: the token extent model (Enc/Partial.v tok_extent) is validated only by this correspondence; the '
    'default parsing-state constants are regenerated and the generator fails closed if a hard-wired default changes',
    'rules outside the family (look-ahead/behind regexes, callables with side effects or negative consumed lengths, '
    'callables that raise) are covered by the theorems only as abstract functions str -> nat -> cres',
]
PARTIAL = []
REFUTED = ['C04_partial_unfixed_raises (the partial encoder BEFORE fixes/C04-partial-token-error.diff lets '
           'LatexWalkerTokenParseError escape; carried as documentation of F9, the model tracks the fixed code)']
CASE_TIMEOUT = 10.0      # generous: a spurious timeout under load reads as a disagreement
ALWAYS_SEARCH = False

PROTS = ['none', 'braces', 'braces-all', 'braces-almost-all', 'braces-after-macro']
POLS = ['keep', 'replace', 'ignore', 'fail', 'unihex']

# ----------------------------------------------------------------------------
# wire encoding (mirror of coq/Entry/E04.v)


def _w_prot(p):
    if isinstance(p, str):
        return [PROTS.index(p)]
    return [5] + w_str(p[1]) + w_str(p[2])


def _w_pol(p):
    if isinstance(p, str):
        return [POLS.index(p)]
    return [5] + w_str(p[1]) + w_str(p[2])


def _w_rx(r):
    k = r[0]
    if k == 'lit':
        return [0] + w_str(r[1])
    if k == 'cls':
        return [1, r[1], r[2], r[3]]
    if k == 'rep':
        return [2, r[1], r[2]]
    if k == 'nafter':
        return [4, r[1], r[2]] + w_str(r[3])
    if k == 'bol':
        return [5] + w_str(r[1])
    return [3] + w_str(r[1]) + [r[2], r[3]] + w_str(r[4])


def _w_piece(p):
    if p == 'g0':
        return [1]
    if p == 'g1':
        return [2]
    return [0] + w_str(p[1])


def _w_rrepl(r):
    if r[0] == 'templ':
        return [0] + w_list(r[1], _w_piece)
    return [1] + w_str(r[1]) + w_str(r[2])


def _w_callable(c):
    k = c[0]
    if k == 'lit':
        return [0] + w_str(c[1]) + w_str(c[2])
    if k == 'doc':
        return [1]
    if k == 'quote':
        return [2]
    return [3] + w_str(c[1]) + [c[2]] + w_str(c[3])


def _w_body(b):
    if b[0] == 'dict':
        if b[1] == 'defaults':
            return [0, 0]
        if b[1] == 'unicode-xml':
            return [0, 1]
        return [0, 2] + w_list(b[2], lambda kv: [kv[0]] + w_str(kv[1]))
    if b[0] == 'regex':
        return [1] + w_list(b[1], lambda pr: _w_rx(pr[0]) + _w_rrepl(pr[1]))
    return [2] + _w_callable(b[1])


def _w_rule(r):
    return w_opt(r['prot'], _w_prot) + _w_body(r['body'])


def nfc(s):
    return unicodedata.normalize('NFC', s)


def _wire(d):
    if d['kind'] == 'helper':
        return [401] + w_list(d['calls'], lambda c: w_bool(c[0]) + w_str(c[1]) + w_str(c[2]) + w_bool(c[3]) + w_str(nfc(c[4])))
    w = [400]
    w += [0] if d['mode'] == 'plain' else [1] + w_str(d['keep'])
    w += w_bool(d['chunks']) + w_bool(d['nao']) + _w_prot(d['prot']) + _w_pol(d['policy'])
    w += w_list(d['rules'], _w_rule)
    w += w_str(nfc(d['s']))
    return w


# ----------------------------------------------------------------------------
# Python twins of the rule family


def _mk_regex(r):
    k = r[0]
    if k == 'lit':
        return re.compile(re.escape(r[1]))
    if k == 'cls':
        return re.compile('[%s-%s]{%d,}' % (re.escape(chr(r[1])), re.escape(chr(r[2])), r[3]))
    if k == 'rep':
        return re.compile('%s{%d}' % (re.escape(chr(r[1])), r[2]))
    if k == 'nafter':                                   # looks at the character before the position
        return re.compile('(?<![%s-%s])%s' % (re.escape(chr(r[1])), re.escape(chr(r[2])), re.escape(r[3])))
    if k == 'bol':                                      # start of the whole string only
        return re.compile('^' + re.escape(r[1]))
    return re.compile(re.escape(r[1]) + '([%s-%s]+)' % (re.escape(chr(r[2])), re.escape(chr(r[3]))) + re.escape(r[4]))


def _mk_rrepl(r):
    if r[0] == 'templ':
        return ''.join('\\g<0>' if p == 'g0' else '\\1' if p == 'g1' else p[1].replace('\\', '\\\\') for p in r[1])
    pre, post = r[1], r[2]
    return lambda m: pre + m.group(0) + post


_RX_UP = re.compile(r'[A-Z]{2,}')


def _c_doc(s, pos):
    m = _RX_UP.match(s, pos)
    if m is not None:
        return (m.end() - m.start(), '{' + m.group() + '}')
    if s.startswith('...', pos):
        return (3, r'\ldots')
    return None


def _c_quote(s, pos):
    if s[pos] != '"':
        return None
    if pos == 0 or s[pos - 1] in ' \n\t':
        return (1, '``')
    return (1, "''")


def _mk_callable(c):
    k = c[0]
    if k == 'lit':
        l, repl = c[1], c[2]
        return lambda s, pos: (len(l), repl) if s.startswith(l, pos) else None
    if k == 'doc':
        return _c_doc
    if k == 'quote':
        return _c_quote
    chars, n, repl = c[1], c[2], c[3]

    def f(s, pos, u2lobj):          # exercises the u2lobj keyword path
        assert u2lobj is not None
        return (n, repl) if s[pos] in chars else None
    return f


def _mk_prot(p):
    if p is None or isinstance(p, str):
        return p
    pre, post = p[1], p[2]
    return lambda r: pre + r + post


def _mk_policy(p):
    if isinstance(p, str):
        return p
    pre, post = p[1], p[2]

    def f(ch, u2lobj):
        return pre + ch + post
    return f


def _mk_rules(rules):
    from pylatexenc import latexencode as le
    out = []
    for r in rules:
        b = r['body']
        kw = {}
        if r['prot'] is not None:
            kw['replacement_latex_protection'] = _mk_prot(r['prot'])
        if b[0] == 'dict':
            if b[1] in ('defaults', 'unicode-xml'):
                if r['prot'] is None:
                    out.append(b[1])            # the documented string form
                else:
                    out.append(le.UnicodeToLatexConversionRule(
                        le.RULE_DICT, le.get_builtin_conversion_rules(b[1])[0].rule, **kw))
            else:
                out.append(le.UnicodeToLatexConversionRule(le.RULE_DICT, dict((k, v) for k, v in b[2]), **kw))
        elif b[0] == 'regex':
            out.append(le.UnicodeToLatexConversionRule(
                le.RULE_REGEX, [(_mk_regex(x), _mk_rrepl(y)) for x, y in b[1]], **kw))
        else:
            out.append(le.UnicodeToLatexConversionRule(le.RULE_CALLABLE, _mk_callable(b[1]), **kw))
    return out


class LatexChunkList(object):
    """the custom result class of the class documentation"""
    def __init__(self):
        self.chunks = []

    def __iadd__(self, s):
        self.chunks.append(s)
        return self


def _encoder(d):
    from pylatexenc import latexencode as le
    kw = dict(non_ascii_only=d['nao'], conversion_rules=_mk_rules(d['rules']),
              replacement_latex_protection=_mk_prot(d['prot']), unknown_char_policy=_mk_policy(d['policy']),
              unknown_char_warning=(len(d['s']) % 2 == 1))       # the warning path must not change the result
    if d['chunks']:
        kw['latex_string_class'] = LatexChunkList
    if d['mode'] == 'plain':
        return le.UnicodeToLatexEncoder(**kw)
    return le.PartialLatexToLatexEncoder(keep_latex_chars=d['keep'], **kw)


def _run_real(d):
    """-> ('ok', str or chunk list) | ('exc', class name)"""
    try:
        r = _encoder(d).unicode_to_latex(d['s'])
    except CaseTimeout:
        raise
    except Exception as e:
        return ('exc', type(e).__name__)
    return ('ok', r.chunks if d['chunks'] else r)


def _show(d, r):
    if r[0] == 'exc':
        return 'E ' + r[1]
    if d.get('chunks'):
        return 'C ' + show_list(r[1], show_str)
    return 'O ' + show_str(r[1])


def _helper_calls(calls, clear=True):
    from pylatexenc import latexencode as le
    if clear:
        le._u2l_obj_cache.clear()
    out = []
    for nao, pr, pol, warn, s in calls:
        try:
            out.append(('ok', le.unicode_to_latex(s, non_ascii_only=nao, replacement_latex_protection=pr,
                                                   unknown_char_policy=pol, unknown_char_warning=warn)))
        except Exception as e:
            out.append(('exc', type(e).__name__))
    return out


def impl(c):
    d = c['desc']
    if d['kind'] == 'helper':
        return ' '.join(_show({}, r) for r in _helper_calls(d['calls']))
    if not _in_contract(d):
        # a rule that consumes nothing: the documented loop never ends.  Bounded here (3 s) so that the expected
        # non-termination is not mistaken for a load-induced timeout and re-run for minutes
        import common
        try:
            return _show(d, common.with_timeout(_run_real, d, 3.0))
        except CaseTimeout:
            return '!TIMEOUT:spins'
    return _show(d, _run_real(d))


def same(m, i, c):
    if m == 'FUEL':                  # a rule that consumes nothing: the real loop never ends
        return i.startswith('!TIMEOUT')
    return m == i


# ----------------------------------------------------------------------------
# the property on the real code: independent reference encoder, from the documentation


def _ref_protect(p, repl):
    if callable(p):
        return p(repl)
    m = re.search(r'\\([^\\]*)\Z', repl, flags=re.S)
    named_macro_at_end = m is not None and m.group(1).isalpha()
    if p == 'braces':
        return '{' + repl + '}' if named_macro_at_end else repl
    if p == 'braces-all':
        return '{' + repl + '}'
    if p == 'braces-almost-all':
        return '{' + repl + '}' if repl.startswith('\\') else repl
    if p == 'braces-after-macro':
        return repl + '{}' if named_macro_at_end else repl
    assert p == 'none'
    return repl


def _ref_keep_token(s, i):
    """one well-formed LaTeX token at s[i:], read by the real (strict) token reader; None if there is none"""
    from pylatexenc.latexwalker import LatexWalker
    from pylatexenc.latexnodes import LatexWalkerError
    lw = LatexWalker(s, tolerant_parsing=False)
    try:
        tok = lw.make_token_reader(pos=i).peek_token(parsing_state=lw.make_parsing_state())
    except LatexWalkerError:
        return None
    if tok.tok in ('begin_environment', 'end_environment') and not _ENVNAME_OK.match(tok.arg or ''):
        return None         # the characters an environment name may contain are written down here, not asked of the reader
    return tok.pos_end - i


_ENVNAME_OK = re.compile(r'^[A-Za-z0-9*._ :/!^()\[\]-]+$')


def ref_encode(d):
    """-> ('ok', chunks) | ('exc', 'ValueError')"""
    from pylatexenc import latexencode as le
    s = nfc(d['s'])
    rules = []
    for r, robj in zip(d['rules'], _mk_rules(d['rules'])):
        if isinstance(robj, str):
            robj = le.get_builtin_conversion_rules(robj)[0]
        rules.append((robj.rule_type, robj.rule, _mk_prot(r['prot'])))
    gprot, pol = _mk_prot(d['prot']), _mk_policy(d['policy'])
    out, i = [], 0
    while i < len(s):
        ch = s[i]
        if d['nao'] and ord(ch) < 128:                    # ASCII is passed through untouched
            out.append(ch); i += 1; continue
        if d['mode'] == 'partial' and ch in d['keep']:    # well-formed LaTeX tokens are copied through
            n = _ref_keep_token(s, i)
            if n is not None:
                out.append(s[i:i + n]); i += n; continue
        hit = None
        for rtype, rule, rprot in rules:                  # the first rule, in the given order, that matches
            if rtype == le.RULE_DICT:
                if ord(ch) in rule:
                    hit = (1, rule[ord(ch)])
            elif rtype == le.RULE_REGEX:
                for rx, repl in rule:
                    m = rx.match(s, i)
                    if m is not None:
                        hit = (m.end() - m.start(), repl(m) if callable(repl) else m.expand(repl))
                        break
            else:
                try:
                    hit = rule(s, i)
                except TypeError:
                    hit = rule(s, i, u2lobj=object())
            if hit is not None:
                out.append(_ref_protect(rprot if rprot is not None else gprot, hit[1]))
                i += hit[0]
                break
        if hit is not None:
            continue
        if 32 <= ord(ch) <= 127 or ch in '\n\r\t':        # unmatched printable ASCII is copied
            out.append(ch)
        elif callable(pol):
            out.append(pol(ch, u2lobj=None))
        elif pol == 'keep':
            out.append(ch)
        elif pol == 'replace':
            out.append('{\\bfseries ?}')
        elif pol == 'ignore':
            out.append('')
        elif pol == 'unihex':
            out.append('\\ensuremath{\\langle}\\texttt{U+%04X}\\ensuremath{\\rangle}' % ord(ch))
        else:
            return ('exc', 'ValueError')
        i += 1
    return ('ok', out)


def _in_contract(d):
    """rules must consume at least one character and templates must be well-formed (rule author's duty)"""
    for r in d['rules']:
        b = r['body']
        if b[0] == 'regex':
            for rx, repl in b[1]:
                if (rx[0] in ('lit', 'bol') and rx[1] == '') or (rx[0] == 'nafter' and rx[3] == '') \
                        or (rx[0] in ('cls', 'rep') and rx[-1] == 0):
                    return False
                if repl[0] == 'templ' and 'g1' in repl[1] and rx[0] != 'grp':
                    return False
        if b[0] == 'callable':
            c = b[1]
            if (c[0] == 'lit' and c[1] == '') or (c[0] == 'set' and c[2] == 0):
                return False
    return True


_prelude_done = False


def _prelude():
    """once per worker process, BEFORE any judged encoding: other encoder objects are created whose rule lists
    START with a built-in name and continue with further entries (the other built-in set, a custom rule).
    Encoders created afterwards must not be affected: every encoder expands its own rule list."""
    global _prelude_done
    if _prelude_done:
        return
    _prelude_done = True
    try:
        from pylatexenc import latexencode as le
        rule = le.UnicodeToLatexConversionRule(le.RULE_DICT, {0x2460: '(1)', ord('a'): 'A'})
        for rules in (['defaults', 'unicode-xml'], ['unicode-xml', 'defaults'], ['defaults', rule], ['unicode-xml', rule]):
            le.UnicodeToLatexEncoder(conversion_rules=rules, unknown_char_policy='keep').unicode_to_latex('a\u2460\u0328')
    except Exception:
        pass


def oracle(c):
    _prelude()
    d = c['desc']
    if d['kind'] == 'helper':
        from pylatexenc import latexencode as le
        got = _helper_calls(d['calls'])
        again = _helper_calls(d['calls'], clear=False)          # same history on a warm cache
        for idx, (call, g, g2) in enumerate(zip(d['calls'], got, again)):
            nao, pr, pol, warn, s = call
            try:
                exp = ('ok', le.UnicodeToLatexEncoder(non_ascii_only=nao, replacement_latex_protection=pr,
                                                      unknown_char_policy=pol, unknown_char_warning=warn)
                       .unicode_to_latex(s))
            except Exception as e:
                exp = ('exc', type(e).__name__)
            if g != exp or g2 != exp:
                return ('helper-differs-from-fresh-encoder', {'call_index': idx, 'observed': [g, g2], 'expected': exp})
        return None
    if not _in_contract(d):
        return None
    got = _run_real(d)
    exp = ref_encode(d)
    if got[0] == 'exc':
        if got[1] != 'ValueError':
            if d['mode'] == 'partial' and got[1] in ('LatexWalkerTokenParseError', 'LatexWalkerEndOfStream'):
                return ('partial-encoder-token-error-escapes', {'observed': got[1], 'expected': _show(d, _fin(d, exp))})
            return ('unexpected-exception-class', {'observed': got[1], 'expected': _show(d, _fin(d, exp))})
        if exp[0] != 'exc':
            return ('valueerror-without-fail-policy-or-unmatched-char', {'observed': got[1], 'expected': _show(d, _fin(d, exp))})
        return None
    if exp[0] == 'exc':
        return ('missing-valueerror-under-fail', {'observed': _show(d, got)})
    e = _fin(d, exp)
    if got != e:
        if d['nao'] and '\x7f' in nfc(d['s']):
            d2 = dict(d, s=d['s'].replace('\x7f', 'x'))
            if _run_real(d2) == _fin(d2, ref_encode(d2)):
                return ('non-ascii-only-applies-rules-to-del', {'observed': _show(d, got), 'expected': _show(d, e)})
        return ('output-differs-from-documented-semantics', {'observed': _show(d, got), 'expected': _show(d, e)})
    return None


def _fin(d, r):
    if r[0] == 'exc' or d['chunks']:
        return r
    return ('ok', ''.join(r[1]))


# ----------------------------------------------------------------------------
# generators

_TABLES = None


def _tables():
    global _TABLES
    if _TABLES is None:
        from pylatexenc.latexencode import _uni2latexmap, _uni2latexmap_xml
        _TABLES = (sorted(_uni2latexmap.uni2latex), sorted(_uni2latexmap_xml.uni2latex))
    return _TABLES


SPECIAL_CPS = ([0, 1, 7, 8, 9, 10, 11, 12, 13, 27, 31, 127, 128, 133, 159, 160, 173] +          # controls, nbsp, shy
               [0x300, 0x301, 0x302, 0x303, 0x308, 0x30A, 0x327, 0x338, 0x20D7] +               # combining
               [0x378, 0x530, 0xFFFE, 0xFFFF, 0x2FFFE, 0xE0000, 0x10FFFE, 0x10FFFF] +           # unassigned / nonchars
               [0xD800, 0xDBFF, 0xDFFF] +                                                        # lone surrogates
               [0x1D49C, 0x1D4AF, 0x1F600, 0x1F9D0, 0x20000, 0xF0000] +                          # astral
               [0x2028, 0x2029, 0x200B, 0x2003, 0x3000, 0xFB01, 0x212B, 0x2126, 0x1E9B])         # NFC-changing etc.
LATEX_SOUP = ['\\', '\\alpha', '\\alpha ', '\\alpha  \n', '\\alpha \n\n', '\\begin{a}', '\\begin {ab*}', '\\begin x',
              '\\begin', '\\begin{', '\\begin{}', '\\end{itemize}', '\\end', '\\beginx', '\\endcsname', '$', '$$', '\\(',
              '\\)', '\\[', '\\]', '{', '}', '^', '_', '%', '% c\n', '%c\n  \n', '%c\n \n\n x', '~', '``', "''", '--',
              '---', '-', '!`', '?`', '&', '#', ' ', '\n', '\n\n', '\t', "\\'", "\\'{e}", '\\"o', '\\^\\i', '\\\\',
              '\\ ', '\\%', '\\é', '\\begin\u00a0{x}', '\\x\u2003', 'é', 'ø', '→', 'α', 'a', 'b', 'AB', 'ABC', '...',
              '"', '<', '>', '|', 'e\u0301', 'A\u030a', '\u212b', '\x7f', '\x00', '\u0085',
              # environment names: every ASCII punctuation character inside the braces (most make the call ill-formed)
              '\\begin{a<b}', '\\begin{a,b}', '\\end{x=y}', '\\begin{a+b}', '\\end{q?}', '\\begin{a@b}', '\\begin{a;b}', '\\begin{a>b}',
              '\\begin{a\\b}', '\\begin{a-b}', '\\end{a_b}', '\\begin{a.b:c/d!e^f(g)[h]}', '\\begin{a|b}', '\\begin{a"b}',
              "\\begin{a'b}", '\\begin{a`b}', '\\begin{a~b}', '\\end{a#b}', '\\begin{a&b}', '\\begin{a$b}', '\\begin{a%b}', '\\begin{a b*}']
KEEPS = ['\\${}^_', '\\', '\\$', '%\\', ' \\{}', '\n\\$', '~&-\\', 'éa\\', '', '\\${}^_%~ \n']


def _rand_string(rnd, tables, mode):
    k = rnd.random()
    n = rnd.choice([0, 1, 2, 3, 4, 6, 8, 12, 16, 24])
    parts = []
    for _ in range(n):
        x = rnd.random()
        if mode == 'partial' or k < 0.25:
            if x < 0.6:
                parts.append(rnd.choice(LATEX_SOUP))
                continue
        if x < 0.30:
            parts.append(chr(rnd.choice(rnd.choice(tables))))
        elif x < 0.55:
            parts.append(chr(rnd.randrange(0, 128)))
        elif x < 0.70:
            parts.append(chr(rnd.choice(SPECIAL_CPS)))
        elif x < 0.85:
            parts.append(rnd.choice(['ab', 'abc', 'a', 'AB', 'ABCD', 'A', '...', '..', '<em>', '<b', '"', ' "x"', 'é', 'ée',
                                     'x1', '12', 'aa', 'aaa', '\x7f',
                                     # not NFC although no character has a combining class or a decomposition:
                                     # conjoining Hangul jamo, two-part vowel signs
                                     '\u1112\u1161\u11ab', '\uac00\u11a8', '\u0bc6\u0bbe', '\u09c7\u09d7', '\u1025\u102e',
                                     'e\u0301', 'A\u030a', '\u0075\u0308\u0304']))
        elif x < 0.93:
            parts.append(chr(rnd.choice([rnd.randrange(128, 0x3000), rnd.randrange(0x3000, 0x11000),
                                         rnd.randrange(0x10000, 0x110000)])))
        else:
            parts.append(rnd.choice(LATEX_SOUP))
    return ''.join(parts)


def _rand_prot(rnd, allow_fun=True):
    if allow_fun and rnd.random() < 0.12:
        return ['wrap', rnd.choice(['<', '', '\\x{', '\\é']), rnd.choice(['>', '}', '', '\\ab'])]
    return rnd.choice(PROTS)


def _rand_policy(rnd):
    if rnd.random() < 0.12:
        return ['wrap', rnd.choice(['[', '', '\\u']), rnd.choice([']', '', '?'])]
    return rnd.choice(POLS)


REPLS = ['\\x', '\\xy ', '{\\xy}', 'r', '', '\\é', '\\x1', '\\\\', '\\a\\b', '\\a\\', 'a\\bc', '\\ensuremath{\\alpha}',
         '\\^\\i', '\\^{\\i}', '\\"a', '\\textemdash', '-', '\\textbackslash', '\\Ж', 'x\\y\u0301', '{}', '\\{', '\\ ']


def _rand_rx(rnd, contract):
    k = rnd.random()
    if k < 0.35:
        return ['lit', rnd.choice(['a', 'ab', 'abc', 'é', 'ée', '..', '.', '<', '\\', '$$', 'A', '--', '\x7f', ' ', '(', '[a]'] +
                                  ([] if contract else ['']))]
    if k < 0.55:
        lo, hi = rnd.choice([(65, 90), (97, 122), (48, 57), (97, 99), (65, 65)])
        return ['cls', lo, hi, rnd.choice([1, 2, 2, 3] + ([] if contract else [0]))]
    if k < 0.68:
        return ['rep', ord(rnd.choice('.-a* \\')), rnd.choice([1, 2, 3, 3] + ([] if contract else [0]))]
    if k < 0.78:                                        # left context: (?<![lo-hi])lit
        lo, hi = rnd.choice([(65, 90), (97, 122), (48, 57), (97, 99), (45, 46)])
        return ['nafter', lo, hi, rnd.choice(['a', 'ab', 'A', '.', '-', 'é', '1', 'b'] + ([] if contract else ['']))]
    if k < 0.84:                                        # ^lit
        return ['bol', rnd.choice(['a', 'ab', '-', 'é', 'A', '.'] + ([] if contract else ['']))]
    lo, hi = rnd.choice([(97, 122), (65, 90), (48, 57), (97, 100)])
    return ['grp', rnd.choice(['<', '', '\\', 'é', '(']), lo, hi, rnd.choice(['>', '', 'a', 'ab', ')', 'z9'])]


def _rand_rrepl(rnd, rx, contract):
    if rnd.random() < 0.25:
        return ['wrap', rnd.choice(['{', '\\m{', '']), rnd.choice(['}', '', '\\z'])]
    pieces = []
    for _ in range(rnd.choice([1, 1, 2, 3])):
        x = rnd.random()
        if x < 0.5:
            pieces.append(['lit', rnd.choice(REPLS)])
        elif x < 0.75 or (rx[0] != 'grp' and contract):
            pieces.append('g0')
        else:
            pieces.append('g1')
    return ['templ', pieces]


def _rand_rule(rnd, tables, contract=True):
    prot = _rand_prot(rnd) if rnd.random() < 0.35 else None
    k = rnd.random()
    if k < 0.22:
        body = ['dict', 'defaults']
    elif k < 0.32:
        body = ['dict', 'unicode-xml']
    elif k < 0.55:
        keys = set()
        for _ in range(rnd.choice([1, 2, 4, 8])):
            keys.add(rnd.choice([rnd.choice(tables[0]), rnd.randrange(32, 128), rnd.choice(SPECIAL_CPS), 127, 97, 233, 65]))
        body = ['dict', 'custom', [[k2, rnd.choice(REPLS)] for k2 in sorted(keys)]]
    elif k < 0.78:
        items = []
        for _ in range(rnd.choice([1, 1, 2, 3])):
            rx = _rand_rx(rnd, contract)
            items.append([rx, _rand_rrepl(rnd, rx, contract)])
        body = ['regex', items]
    else:
        x = rnd.random()
        if x < 0.3:
            c = ['lit', rnd.choice(['a', 'ab', '..', 'é', '\\', '\x7f'] + ([] if contract else [''])), rnd.choice(REPLS)]
        elif x < 0.5:
            c = ['doc']
        elif x < 0.7:
            c = ['quote']
        else:
            c = ['set', rnd.choice(['a', 'abc', 'éø', '\x7f\x00', '\\$', 'A.']), rnd.choice([1, 1, 2, 3, 50] + ([] if contract else [0])),
                 rnd.choice(REPLS)]
        body = ['callable', c]
    return {'prot': prot, 'body': body}


def _enc_case(d):
    d = dict(d, kind='enc')
    try:
        r = ref_encode(d) if _in_contract(d) else None
    except Exception:
        r = None
    nt = bool(r and (r[0] == 'exc' or ''.join(r[1]) != nfc(d['s'])))
    return {'wire': _wire(d), 'desc': d, 'nt': nt}


def case_from_desc(d):
    if d['kind'] == 'helper':
        return {'wire': _wire(d), 'desc': d, 'nt': True}
    return _enc_case(d)


def _base(rules, **kw):
    d = dict(mode='plain', keep='', chunks=False, nao=False, prot='braces', policy='keep', rules=rules, s='')
    d.update(kw)
    return d


DEFAULT_RULES = [{'prot': None, 'body': ['dict', 'defaults']}]
XML_RULES = [{'prot': None, 'body': ['dict', 'unicode-xml']}]


def gen_cases(seed, tier):
    rnd = random.Random(seed * 7919 + 4)
    tables = _tables()
    quick = tier == 'quick'
    cases = []
    # -- fixed cases: documentation examples, findings, corner cases
    fixed = [
        _base(DEFAULT_RULES, s='é → α', chunks=True, prot='none'),
        _base(DEFAULT_RULES, s='maître à 100% \\ {x}_^~<>"'),
        _base(DEFAULT_RULES, s='a\\', mode='partial', keep='\\${}^_'),
        _base(DEFAULT_RULES, s='\\begin x', mode='partial', keep='\\${}^_'),
        _base(DEFAULT_RULES, s='a ', mode='partial', keep=' \\'),
        _base(DEFAULT_RULES, s="\\'{e} & 100% é $x^2_i$ \\alpha  \n\n b", mode='partial', keep='\\${}^_'),
        _base([{'prot': None, 'body': ['dict', 'custom', [[127, 'DEL'], [97, '\\a']]]}], s='a\x7fb', nao=True),
        _base([{'prot': None, 'body': ['dict', 'custom', [[127, 'DEL'], [97, '\\a']]]}], s='a\x7fb', nao=False),
        _base([{'prot': None, 'body': ['regex', [[['cls', 65, 90, 2], ['templ', [['lit', '{'], 'g1', ['lit', '}']]]]]]}],
              s='xABC'),                                       # the example of the docs: r'{\1}' without a group
        _base([{'prot': None, 'body': ['regex', [[['cls', 65, 90, 2], ['templ', [['lit', '{'], 'g0', ['lit', '}']]]],
                                                 [['rep', 46, 3], ['templ', [['lit', '\\ldots']]]]]]}] + DEFAULT_RULES,
              s='The ABC of X... é'),
        _base([{'prot': None, 'body': ['regex', [[['cls', 97, 122, 0], ['templ', [['lit', 'x']]]]]]}], s='1'),   # empty match
        # patterns that look at what stands BEFORE the position (look-behind, ^): rx.match(s, pos), not rx.match(s[pos:])
        _base([{'prot': None, 'body': ['regex', [[['nafter', 97, 122, 'A'], ['templ', [['lit', '{'], 'g0', ['lit', '}']]]]]]}],
              s='mA xA A.AA'),
        _base([{'prot': None, 'body': ['regex', [[['bol', '-'], ['templ', [['lit', '\\textendash ']]]]]]}], s='-a-b--'),
        _base([{'prot': None, 'body': ['regex', [[['nafter', 48, 57, '.'], ['wrap', '<', '>']], [['bol', 'a'], ['wrap', '[', ']']]]]}]
              + DEFAULT_RULES, s='a1.5 . a.é'),
        _base([{'prot': None, 'body': ['callable', ['set', '1', 0, 'x']]}], s='1'),                              # consumed 0
        _base([{'prot': 'none', 'body': ['callable', ['set', 'a', 50, '\\x']]}] + DEFAULT_RULES, s='éaé'),       # beyond the end
    ]
    for d in fixed:
        cases.append(_enc_case(d))
    # -- sweep over every key of both tables, neighbours chosen to exercise protection
    glue = ['', 'a', ' ', '1', '{', '\\', 'é']
    combos = []
    for ti, (rules, keys) in enumerate(((DEFAULT_RULES, tables[0]), (XML_RULES, tables[1]))):
        for pi, p in enumerate(PROTS):
            combos.append((rules, keys, p))
    per = 10
    for ci, (rules, keys, p) in enumerate(combos):
        for j in range(0, len(keys), per):
            if quick and (j // per) % len(PROTS) != ci % len(PROTS):
                continue                                     # quick: each key once per table, protections rotate
            g = glue[(j // per) % len(glue)]
            s = g.join(chr(k) for k in keys[j:j + per]) + g
            cases.append(_enc_case(_base(rules, prot=p, s=s, policy=POLS[(j // per) % 5], chunks=(j // per) % 7 == 0)))
    # -- all ASCII, each policy / flag
    ascii_all = ''.join(chr(i) for i in range(128))
    for pol in POLS + [['wrap', '[', ']']]:
        for nao in (False, True):
            for rules in (DEFAULT_RULES, XML_RULES, []):
                cases.append(_enc_case(_base(rules, policy=pol, nao=nao, s=ascii_all, prot=rnd.choice(PROTS))))
    for cp in SPECIAL_CPS:
        for pol in POLS:
            cases.append(_enc_case(_base(DEFAULT_RULES, policy=pol, s='a' + chr(cp) + 'b' + chr(cp))))
    # -- random configurations x random strings
    n = 2600 if quick else 70000
    for i in range(n):
        mode = 'partial' if rnd.random() < 0.3 else 'plain'
        nr = rnd.choice([0, 1, 1, 2, 2, 3, 4, 6])
        rules = [_rand_rule(rnd, tables) for _ in range(nr)]
        if rnd.random() < 0.5:
            rules.append({'prot': None, 'body': ['dict', rnd.choice(['defaults', 'defaults', 'unicode-xml'])]})
        d = _base(rules, mode=mode, keep=rnd.choice(KEEPS) if mode == 'partial' else '',
                  chunks=rnd.random() < 0.25, nao=rnd.random() < 0.25, prot=_rand_prot(rnd),
                  policy=_rand_policy(rnd))
        for _ in range(2):
            cases.append(_enc_case(dict(d, s=_rand_string(rnd, tables, mode))))
    # -- call histories of the module-level helper
    names_p = PROTS + ['braces_all', 'braces_after-macro', 'bogus', '', 'Braces']
    names_u = POLS + ['uni-hex', 'bogus', '', 'Keep']
    for i in range(150 if quick else 3000):
        calls = []
        pool = [(rnd.random() < 0.3, rnd.choice(names_p if rnd.random() < 0.3 else PROTS),
                 rnd.choice(names_u if rnd.random() < 0.3 else POLS), rnd.random() < 0.5) for _ in range(3)]
        for _ in range(rnd.choice([1, 2, 3, 5, 8])):
            k = rnd.choice(pool)
            calls.append([k[0], k[1], k[2], k[3], _rand_string(rnd, tables, 'plain')])
        d = {'kind': 'helper', 'calls': calls}
        cases.append({'wire': _wire(d), 'desc': d, 'nt': len(calls) >= 2})
    return cases


def extra_search(seed, tier, broken):
    """more partial-encoder token soups and non-contract-free random configurations for the oracle"""
    rnd = random.Random(seed * 104729 + 17)
    tables = _tables()
    out = []
    for i in range(4000 if tier == 'quick' else 40000):
        mode = 'partial' if rnd.random() < 0.5 else 'plain'
        rules = [_rand_rule(rnd, tables) for _ in range(rnd.choice([0, 1, 2, 3]))] + \
                ([{'prot': None, 'body': ['dict', 'defaults']}] if rnd.random() < 0.6 else [])
        d = _base(rules, mode=mode, keep=rnd.choice(KEEPS) if mode == 'partial' else '', chunks=rnd.random() < 0.2,
                  nao=rnd.random() < 0.3, prot=_rand_prot(rnd), policy=_rand_policy(rnd),
                  s=_rand_string(rnd, tables, mode))
        out.append(_enc_case(d))
    return out


def distribution(cases, impl_out):
    import collections
    enc = [c['desc'] for c in cases if c['desc']['kind'] == 'enc']
    kinds = collections.Counter()
    for d in enc:
        for r in d['rules']:
            b = r['body']
            kinds[b[0] + ':' + (b[1] if b[0] == 'dict' else b[1][0] if b[0] == 'callable' else 'list')] += 1
    outc = collections.Counter((i.split(' ')[0] if isinstance(i, str) else '!' + str(i[0])) for i in impl_out)
    excs = collections.Counter(i for c, i in zip(cases, impl_out)
                               if c['desc']['kind'] == 'enc' and isinstance(i, str) and i.startswith('E '))
    return {
        'cases_by_kind': dict(collections.Counter(c['desc']['kind'] for c in cases)),
        'mode': dict(collections.Counter(d['mode'] for d in enc)),
        'global_protection': dict(collections.Counter(d['prot'] if isinstance(d['prot'], str) else 'callable' for d in enc)),
        'rules_with_own_protection': sum(1 for d in enc for r in d['rules'] if r['prot'] is not None),
        'policy': dict(collections.Counter(d['policy'] if isinstance(d['policy'], str) else 'callable' for d in enc)),
        'non_ascii_only': sum(1 for d in enc if d['nao']),
        'chunk_list_result_class': sum(1 for d in enc if d['chunks']),
        'rule_kinds': dict(kinds),
        'rules_per_config_histogram': dict(collections.Counter(min(len(d['rules']), 8) for d in enc)),
        'string_length_histogram(40=40+)': dict(collections.Counter(min(len(d['s']) // 5 * 5, 40) for d in enc)),
        'implementation_outcomes': dict(outc),
        'implementation_exception_classes': dict(excs),
        'distinct_table_keys_exercised': len({ord(ch) for d in enc for ch in d['s']} & (set(_tables()[0]) | set(_tables()[1]))),
        'table_keys_total': len(set(_tables()[0]) | set(_tables()[1])),
    }
