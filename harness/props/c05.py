"""C05 — strict mode rejects unbalanced markup and fails only with a located parse error."""
import random
import docgen, treedump
import parsecommon as PC

PID = 'C05'
PROJECTION = 'outcome (+spans when accepted)'
RULE = ('strict parses only: all strings up to 2 (3) symbols over the LaTeX-significant alphabet per context, token soups, '
        'structured documents, and single structural faults ({ } $ \\( \\) \\[ \\] \\begin{zq} \\end{zq}) injected at token '
        'boundaries (outside comments and verbatim constructs) of generated documents that the strict parser accepts '
        '(default and custom contexts). Non-trivial: a fault case, or the input has an active character and length >= 3.')
EXHAUSTIVE = {'quick': True, 'thorough': True}
ASSUMPTIONS = ['model of the parser stack validated only by this correspondence',
               'token boundaries of the base document are computed with the real tokenizer under the default state']
PARTIAL = ['clause "a well-formed document to which a single unmatched delimiter has been added is always rejected" '
           '(DESIGN C05_fault_rejected) is proved in Coq only for documents of the CORE grammar of C02 (Doc/DocGrammar.v: text, '
           'groups, macros with mandatory braced arguments, $ / \\( / \\[ / $$ formulas, comments, paragraph breaks; all such '
           'documents, all contexts) with the token inserted at an item boundary of an arbitrarily nested body, for these '
           'fault kinds and positions: C05_fault_closing_partial / C05_fault_closing_any_suffix_partial (a } in the top-level '
           'or a formula body, a \\) or \\] anywhere but in a formula of the same kind, an \\end{x} anywhere, at any '
           'nesting depth: error of the matching raise site located AT the token, whatever follows; side condition '
           'stray_wf: the math token is not $ / $$ (k <> MDollar, k <> MDollars) - necessary, a $ / $$ that is not the expected '
           'closing delimiter opens a formula: C05_dollars_are_not_closing_tokens); '
           'C05_fault_closing_brace_in_groups_partial (a } inserted in a chain of directly nested groups / last macro '
           'arguments standing in the top-level or a formula body: rejected at the closing brace of the outermost construct '
           'of the chain); C05_fault_opening_partial (a {, \\begin{x} without arguments, and - in front of items that are '
           'also a well-formed formula body - a $, \\(, \\[, $$ at top level: "closing delimiter not found" located right after '
           'the token, raised at the end of input); C05_fault_opening_nested_partial / C05_fault_opening_any_suffix_partial '
           '(the same opening delimiters in a nested body whose closing delimiter is not also the new construct\'s: rejected '
           'AT that closing delimiter); C05_fault_closing_math_same_partial (a \\) / \\] in a formula of the same kind - side '
           'condition k <> MDollar, k <> MDollars: for $ / $$ the outcome is the one of the next theorem - whose '
           'remaining body is also well formed outside math mode: the formula\'s own closing delimiter is rejected); '
           'C05_fault_dollar_in_dollars(_nested)_partial (a $ in a $ $ formula or a $$ in a $$ $$ formula, under the analogous '
           'side conditions); '
           'C05_fault_opening_brace_in_groups(_math)_partial (a { in a chain of nested groups at top level / in a \\( \\) or '
           '\\[ \\] formula). NOT proved (correspondence + oracle on every generated fault case only): } inserted '
           'in a macro argument that is not the last one or changes the math mode, { inserted in a macro argument or in a '
           'group chain inside a $ $ / $$ $$ formula or macro argument, opening delimiters inserted in a $ $ / $$ $$ formula, every case '
           'where a side condition of these theorems fails (remaining items that contain a formula and would be read in the '
           'other math mode, $ directly before $, environments with arguments), insertion points inside an item '
           '(between the tokens of a macro call, inside whitespace). Documents of the EXTENDED grammar of C02 '
           '(Doc/DocGrammar2.v: environments with arguments and math-mode bodies, specials, optional / star / '
           'single-token / verbatim arguments, verbatim macros and environments) are covered for stray CLOSING tokens: '
           'C05_fault_closing2_partial / C05_fault_closing2_doc_partial (a }, \\), \\] or \\end{x} at an item '
           'boundary of the top-level body, resp. appended to a whole document), C05_fault_closing2_nested_partial (at an '
           'item boundary of a body reached through groups, formulas of all four kinds and environment bodies - environments '
           'with arguments included -, unless it is the closing delimiter of the innermost construct), '
           'C05_fault_closing2_delimited_arg_partial (in the body of a delimited argument [ ... ] of a macro call written in '
           'such a body): error of the matching raise site located AT the token, reader right after it, whatever follows; '
           'hypothesis: the left context and the items in front of the token are well formed IN FRONT OF everything that is '
           'written after them (the side conditions of the extended grammar are evaluated against the follow string; the rest '
           'of the input is otherwise arbitrary; C05_fault_closing2_doc_ws_partial: ok_doc2 of the document suffices when it ends with '
           'whitespace and no specials sequence contains a backslash / closing brace); and for unmatched OPENING delimiters '
           '({, $, \\(, \\[, $$, and \\begin{name} of ANY environment with a standard signature WITH its arguments, math-mode '
           'bodies included) inserted at an item boundary: C05_fault_opening2_partial (of the top-level body: "closing '
           'delimiter not found" (6) located right after the delimiter - for an environment after its arguments -, raised at '
           'the end of input), C05_fault_opening2_nested_partial (of the body of a group, \\( \\) / \\[ \\] formula or environment '
           'reached through groups, formulas of all four kinds and environment bodies: the new construct runs into the '
           'closing delimiter of the enclosing construct and, when that is not also its own - not { in a group, not '
           '\\begin{name} in the body of \\begin{name} -, rejects it: error of that token\'s raise site located AT it, '
           'whatever follows), C05_fault_opening2_any_suffix_partial (the same in front of any stray closing token, any left '
           'context, any suffix), C05_fault_unclosed2_partial (the input ends inside nested unclosed constructs: error 6 '
           'located right after the opening of the innermost one; covers { inserted in a group standing at top level, whose '
           'outer group is left unclosed; { inserted in a group nested elsewhere is an instance of the nested theorem by '
           're-reading the faulted text), C05_fault_closing2_macro_arg_partial / C05_fault_opening2_macro_arg_partial (a stray '
           '\\), \\] or \\end{x}, resp. an unmatched opening delimiter other than {, at an item boundary of the body of a BRACED '
           'MANDATORY ARGUMENT of a macro call written in such a body - the argument being the innermost construct: rejected '
           'where it stands, resp. at the closing brace of the argument); hypotheses on the FAULTED text, against the follow string: the items in front of '
           'the delimiter well formed in front of everything written after them, a math delimiter outside math mode and $ '
           'not directly followed by $, the environment resolved by the context with well-formed arguments, the items after '
           'the delimiter well formed in the state of the NEW construct\'s body. NOT proved for extended documents '
           '(correspondence + oracle only): an opening delimiter inserted in a $ $ / $$ $$ formula, a math delimiter '
           'inserted in math mode, paths that CONTINUE below a braced macro argument, specials arguments '
           '(delimited arguments: closing tokens only), verbatim environments as the inserted '
           'delimiter, insertion points inside an item. The hypotheses on the faulted text are DERIVED from ok_doc2 of the '
           'ORIGINAL document (d = l1 ++ l2, tr; the delimiter inserted after l1 and optional whitespace, top level) by '
           'C05_fault_opening2_doc_partial / C05_fault_opening2_doc_brace_partial under boolean side conditions: no specials '
           'sequence of the context contains } (no_special_char cx 125); the insertion point is insensitive (ins_point_ok: the '
           'beginning of the document, or right behind a braced group / an environment, or right behind a text run that starts '
           'the document or follows such an item when the first inserted character occurs in no specials sequence); the '
           'delimiter\'s own conditions (open_side2 with no items in front: whitespace without paragraph break, a math delimiter '
           'outside math mode and $ not directly followed by $, \\begin{name} resolved with well-formed arguments); the rest l2 of '
           'the document well formed as the BODY of the new construct in its state (automatic for {; in math mode for math '
           'delimiters / math environments). Behind them: C05_follow_barrier_partial (no side condition of the extended grammar '
           'looks past a closing brace: ok_items2 l (A ++ } ++ F) does not depend on F) and C05_insertion_point_partial. NOT '
           'derived from ok_doc2 (follow-string hypotheses of C05_fault_opening2_partial still needed; '
           'C05_fault_opening2_doc_point_needed: a%b + { is ACCEPTED): insertion points behind a macro call, a specials sequence, '
           'a comment, a paragraph break, a formula, a verbatim macro / environment, and all NESTED insertion points. '
           'Proved in Coq for every string: '
           'C05_no_other_exception(_run, _any_fuel), C05_result_shape, C05_errors_located(_top), C05_error_line_col',
           'C05_no_other_exception allows OutOfFuel as an outcome of the model: termination is a theorem of C06, not of C05',
           'the lineno/colno annotation of _ParsingContext.__exit__ is not part of the parser model (errors carry only pe_pos): '
           'C05_error_line_col is about annotate = the C20 model applied to pe_pos; the real annotation is checked by the oracle']
REFUTED = []
CASE_TIMEOUT = 10.0
case_from_desc = PC.case_from_desc
distribution = PC.distribution
FAULTS = ['{', '}', '$', '\\(', '\\)', '\\[', '\\]', '\\begin{zq}', '\\end{zq}']
VERB_MACROS = ('verb', 'mv', 'mw')
VERB_ENVS = ('verbatim', 'lstlisting')


def _fault_sites(s, ctx):
    """token boundaries of s outside comments / verbatim constructs, or None if s is not accepted"""
    from pylatexenc.latexnodes import LatexWalkerEndOfStream, LatexWalkerTokenParseError
    r = PC.real_parse({'ctx': ctx, 's': s, 'tolerant': False})
    if r[0] != 'ok' or r[1] is None:
        return None
    nl, w = r[1], r[2]
    excl = []
    for n in treedump.iter_nodes(nl):
        k = treedump.kind(n)
        if k == '#':
            # the comment text runs up to the newline: inserting right before the newline is inside it
            excl.append((n.pos, max(n.pos_end, n.pos + 1 + len(n.comment) + 1)))
        elif k == 'M' and n.macroname in VERB_MACROS:
            excl.append((n.pos, n.pos_end))
        elif k == 'E' and n.environmentname in VERB_ENVS:
            excl.append((n.pos, n.pos_end))
    ps = w.make_parsing_state()
    tr = w.make_token_reader()
    b = {0, len(s)}
    try:
        while True:
            t = tr.next_token(ps)
            b.update((t.pos - len(t.pre_space), t.pos, t.pos_end))
    except LatexWalkerEndOfStream:
        pass
    except LatexWalkerTokenParseError:
        return None
    return sorted(i for i in b if not any(a < i < e for a, e in excl))


def gen_cases(seed, tier):
    quick = tier == 'quick'
    cases = PC.stream(seed, tier, modes=(False,), n_fault=0)
    rnd = random.Random(seed + 5)
    n = 1200 if quick else 15000
    for ctx in ('default', 'custom'):
        made = tries = 0
        while made < n and tries < n * 6:
            tries += 1
            s = docgen.gen_doc(rnd, ctx)
            sites = _fault_sites(s, ctx)
            if not sites:
                continue
            for _ in range(2):
                i = rnd.choice(sites)
                f = rnd.choice(FAULTS)
                c = PC.mk_case(ctx, s[:i] + f + s[i:], False, 'fault')
                c['desc'].update(base=s, fault=f, at=i)
                cases.append(c)
                made += 1
    # every fault at EVERY token boundary of a fixed set of small well-formed documents (also between a macro and its
    # arguments, between two arguments, inside optional arguments)
    small = {'default': ['\\textbf{a}', '\\frac{a}{b}', '$\\mathbf{v}$', '\\sqrt[n]{x}', '\\begin{center}a\\end{center}', '{\\emph{x}}',
                         '\\item[a] b', 'a~b', '\\section*{t}', '\\textbf x', '\\[\\hat{a}\\]', '\\begin{tabular}{c}a\\end{tabular}',
                         '\\texttt{\\textit{q}} r'],
             'custom': ['\\ma*[o]{m}', '\\mb{a}[o]', '\\mc+{x}', '\\md(a)<b>', '!![o]{m}', '\\begin{ea}[o]{m}b\\end{ea}', '\\mt{a}', '\\m2{a}{b}']}
    for ctx in ('default', 'custom'):
        for b in small[ctx]:
            sites = _fault_sites(b, ctx)
            for i in (sites or []):
                for f in FAULTS:
                    c = PC.mk_case(ctx, b[:i] + f + b[i:], False, 'fault')
                    c['desc'].update(base=b, fault=f, at=i)
                    cases.append(c)
    cases += PC.state_stream(random.Random(seed + 78), 400 if quick else 6000, modes=(False,))
    # a context whose macros take comma-separated list arguments (real code only: that parser is outside the model)
    for s in docgen.exhaustive(docgen.SYM_COMMASEP, 3 if quick else 4):
        cases.append(PC.mk_case('commasep', s, False, 'commasep'))
    cases += PC.twin_cases(rnd, 250 if quick else 4000)
    cases += PC.deep_cases(False)
    for c in cases:
        s = c['desc']['s']
        c['nt'] = c['desc']['origin'] == 'fault' or (sum(1 for ch in s if ch in '\\{$[%') >= 1 and len(s) >= 3)
    return cases


def impl(c):
    return PC.proj_spans(PC.impl_parse(c))


def same(m, i, c):
    return PC.proj_spans(m) == i


def _lc(s, p):
    k = s.count('\n', 0, p)
    return (k + 1, p - (s.rfind('\n', 0, p) + 1))


def oracle(c):
    d = c['desc']
    s = d['s']
    if d.get('origin') == 'chained-twin':
        bad = PC.oracle_twin(d)
        if bad:
            return bad
    r = PC.real_parse(d)
    if r[0] == 'exn':
        e = r[1]
        if isinstance(e, RecursionError) and d.get('origin') == 'nesting-beyond-interpreter-stack':
            return ('strict-raised-RecursionError:nesting-beyond-interpreter-stack', {'length': len(s)})
        return ('strict-raised-%s' % type(e).__name__, {'message': str(e)[:200]})
    if r[0] == 'err':
        e = r[1]
        if e.pos is None:
            return ('error-without-position', {'message': str(e.msg)[:200]})
        if not (0 <= e.pos <= len(s)):
            return ('error-position-out-of-range', {'pos': e.pos})
        if (e.lineno, e.colno) != PC.expected_linecol(d, s, e.pos):
            return ('error-line-col-mismatch', {'pos': e.pos, 'observed': [e.lineno, e.colno],
                                                'expected': list(PC.expected_linecol(d, s, e.pos))})
        return None
    if d.get('origin') == 'fault' and 'base' in d:
        sites = _fault_sites(d['base'], d['ctx'])
        if sites and d['at'] in sites:
            return ('unbalanced-document-accepted', {'base': d['base'], 'fault': d['fault'], 'at': d['at']})
    return None
