"""C01 — the node tree is a lossless, exactly positioned cover of the source."""
import treedump
import parsecommon as PC

PID = 'C01'
PROJECTION = 'spans'
RULE = ('per context (default walker db; custom db exercising every standard argument kind * [ { m o s t<c> r d v v{} '
        'with per-argument math/text deltas, environments with arguments, math environments, multi-char specials; the '
        'same without unknown-macro fallback; a bare db): all strings up to 2 symbols (3 over the core alphabet in the '
        'thorough tier) over the LaTeX-significant alphabet incl. multi-character symbols, random token soups, structured '
        'mostly-valid documents, single-fault documents; strict and tolerant. Non-trivial: contains an active character '
        'and has length >= 3.')
EXHAUSTIVE = {'quick': True, 'thorough': True}
ASSUMPTIONS = ['model of the parser stack validated only by this correspondence (full tree dumps, modes projected out)',
               'argument kinds e{..}, AnyDelimited*, comma-separated and tack-on parsers are not modelled (translator fails closed)',
               'the chars-text clause (only) assumes ctx_ok: the marker of an optional-chars argument (*, s, t<c>) is one character '
               '(true by construction of ctxwire.argkind_of; proved for the generated default context: C01_default_ctx_ok; '
               'shown necessary: C01_chars_text_needs_ctx_ok)']
PARTIAL = []
REFUTED = []
CASE_TIMEOUT = 10.0
case_from_desc = PC.case_from_desc
distribution = PC.distribution


def gen_cases(seed, tier):
    import docgen
    cases = PC.stream(seed, tier)
    # pylatexenc-2 verbatim parsers with arguments in front of the verbatim text (real code only)
    import random
    cases += PC.state_stream(random.Random(seed + 77), 400 if tier == 'quick' else 6000)
    for s in docgen.exhaustive(docgen.SYM_LEGACYVERB, 3 if tier == 'quick' else 4):
        for tol in (False, True):
            cases.append(PC.mk_case('legacyverb', s, tol, 'legacyverb'))
    # \\verb with whitespace (blank lines included) in front of its delimiter, the starred form, delimiters that are
    # letters or whitespace (modelled: default context)
    for t in docgen.exhaustive(['|', '+', 'a', ' ', '\n', '\n\n', '*', '\\verb'], 4):
        for tol in (False, True):
            cases.append(PC.mk_case('default', '\\verb' + t, tol, 'verb-macro'))
    # embellishment arguments e{^_} (markers repeated and interleaved) and token arguments (real code only)
    r3 = random.Random(seed + 78)
    for s in docgen.exhaustive(['\\ten{T}', '^', '_', '{a}', 'x', ' '], 4 if tier == 'quick' else 5):
        if s.startswith('\\ten'):
            cases.append(PC.mk_case('embell', s + 'y', False, 'embellishments'))
    for _ in range(800 if tier == 'quick' else 12000):
        cases.append(PC.mk_case('embell', docgen.soup(r3, docgen.SYM_EMBELL, 2, 10), r3.random() < 0.3, 'embellishments'))
    return cases


def impl(c):
    return PC.proj_spans(PC.impl_parse(c))


def same(m, i, c):
    return PC.proj_spans(m) == i


def _span(n):
    return (n.pos, n.pos_end)


def _children(n):
    """children in document order: arguments (non-None), then body items"""
    k = treedump.kind(n)
    out = []
    pa = getattr(n, 'nodeargd', None)
    if pa is not None and getattr(pa, 'argnlist', None):
        out += [x for x in pa.argnlist if x is not None]
    if k in ('G', 'E', '$') and n.nodelist is not None:
        nl = n.nodelist
        out += [x for x in (nl if isinstance(nl, (list, tuple)) else getattr(nl, 'nodelist', [nl])) if x is not None]
    if k == 'L':
        out += [x for x in (n if isinstance(n, (list, tuple)) else n.nodelist) if x is not None]
    return out


def _check_node(n, s, strict, path):
    k = treedump.kind(n)
    if k == 'L':
        items = [x for x in (n if isinstance(n, (list, tuple)) else n.nodelist) if x is not None]
        pos, pe = (None, None) if isinstance(n, (list, tuple)) else (n.pos, n.pos_end)
    else:
        items = _children(n)
        pos, pe = n.pos, n.pos_end
    if pos is not None and pe is not None:
        if not (0 <= pos <= pe <= len(s)):
            return ('span-out-of-range', {'node': treedump.dump(n)[:200], 'path': path})
    last = pos
    for j, ch in enumerate(items):
        cp, ce = _span(ch)
        if cp is None or ce is None:
            if strict:
                return ('child-without-span', {'node': treedump.dump(ch)[:200], 'path': path + [j]})
            continue
        if pos is not None and pe is not None and not (pos <= cp and ce <= pe):
            return ('child-outside-parent', {'parent': [pos, pe], 'child': [cp, ce], 'path': path + [j],
                                             'node': treedump.dump(n)[:300]})
        if last is not None and cp < last:
            return ('children-overlap-or-out-of-order', {'previous_end': last, 'child': [cp, ce], 'path': path + [j],
                                                         'node': treedump.dump(n)[:300]})
        last = ce
        r = _check_node(ch, s, strict, path + [j])
        if r:
            return r
    if k == 'C' and strict:
        if n.chars != s[n.pos:n.pos_end]:
            return ('chars-text-differs-from-slice', {'node': treedump.dump(n), 'slice': s[n.pos:n.pos_end]})
    if k == '#':
        if s[n.pos:n.pos + 1] + n.comment + (n.comment_post_space or '') != s[n.pos:n.pos_end] or n.pos_end <= n.pos:
            return ('comment-text-differs-from-slice', {'node': treedump.dump(n), 'slice': s[n.pos:n.pos_end]})
    if k in ('G', '$') and strict and n.nodelist is not None:
        dl, dr = n.delimiters
        sl = s[n.pos:n.pos_end]
        if dl and not sl.startswith(dl) or dr and not sl.endswith(dr):
            return ('delimiters-not-at-span-ends', {'node': treedump.dump(n)[:200], 'slice': sl})
    return None


def oracle(c):
    d = c['desc']
    s = d['s']
    r = PC.real_parse(d)
    if r[0] != 'ok':
        return None                              # C05 / C06 decide about errors
    nl = r[1]
    if nl is None:
        return None
    strict = not d['tolerant']
    if strict:
        if (nl.pos, nl.pos_end) != (0, len(s)):
            return ('toplevel-span-not-whole-input', {'span': [nl.pos, nl.pos_end], 'len': len(s)})
        p = 0
        for j, n in enumerate(nl):
            if n is None or n.pos != p:
                return ('toplevel-gap-or-overlap', {'expected_pos': p, 'node': treedump.dump(n)[:200], 'index': j})
            p = n.pos_end
        if p != len(s):
            return ('toplevel-does-not-reach-end', {'end': p, 'len': len(s)})
        verb = ''.join(n.latex_verbatim() for n in nl)
        if verb != s:
            return ('verbatim-concat-differs', {'verbatim': verb})
        if nl.latex_verbatim() != s:
            return ('nodelist-verbatim-differs', {'verbatim': nl.latex_verbatim()})
    return _check_node(nl, s, strict, [])
