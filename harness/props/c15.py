"""C15 — \\input never reads outside the configured directory in strict mode.

Every case is a directory layout (nested dict), a current directory, the
configured input directory, the strict flag and a chunk of requested names.
impl()/oracle() build the layout FOR REAL under a fresh tempfile.mkdtemp()
(outside /repo and /verif), run the real code, and remove it immediately.

Layout syntax (json-able):  {'name': subtree}  directory
                            ['f', content]     regular file (unique marker content)
                            ['l', target]      symbolic link (absolute targets are
                                               relative to the layout root)
All paths in a case are "model-space" paths: '/' is the layout root."""
import os, sys, random, itertools, tempfile, shutil, collections
from common import w_str, w_opt, w_list, w_bool, show_str, show_opt

PID = 'C15'
PROJECTION = 'fsread'
RULE = ('generated directory layouts built for real in a scratch directory (inside files, outside files, sibling '
        'directories and files sharing a name prefix with the base directory, file and directory symlinks in both '
        'directions, relative/absolute/chained/dangling links, with/without .tex/.latex extension, files shadowing '
        'each other by extension) x configured directory spelled absolutely, with trailing slash, through a directory '
        'symlink, relative to the cwd, nonexistent, a file, the root x strict/non-strict x requested names = all '
        'component sequences to depth 2 (thorough: 3) over the layout\'s own names (with and without extension), '
        '"..", ".", "" plus absolute prefixes, and sampled sequences to depth 4. Non-trivial: a directory is set and '
        'the layout contains a symlink or a requested name has at least two components.')
EXHAUSTIVE = {'quick': False, 'thorough': False}
ASSUMPTIONS = [
    'the theorems are about the file-system MODEL (finite tree of Dir/File/Symlink, no hard links, no permissions, '
    'no mount points, no concurrent modification between check and open); the behaviour of the real kernel and of '
    'CPython 3.12 os.path.realpath/join/exists/isfile/open is tied to the model only by this correspondence',
    'symlink loops (and chains longer than the model fuel) are outside the theorems: the model returns Loop there; '
    'the oracle still evaluates the property on the real code for such layouts',
    'the process current directory is a real path (as getcwd() returns) when the directory is given relatively',
    'names and directory contain no NUL character (os.lstat raises ValueError there, outside the property)',
    'layout root stands for "/": names that climb above the layout root are evaluated by the oracle only',
]
PARTIAL = ['C15_contained / C15_inside_is_read are theorems about the file-system model; real kernel and os.path '
           'behaviour is validated by differential correspondence on generated layouts only (partial by nature)']
REFUTED = []
ALWAYS_SEARCH = True
CASE_TIMEOUT = 20.0
COQCHK = True

TEX, LATEX = '.tex', '.latex'


# ----------------------------------------------------------------------------
# layouts

def F():
    return ['f', None]          # content filled in by mark()


def L(t):
    return ['l', t]


def is_dir(n):
    return isinstance(n, dict)


def walk(tree, prefix=''):
    """yield (model path, node) for every node below the root"""
    for k in sorted(tree):
        n = tree[k]
        p = prefix + '/' + k
        yield p, n
        if is_dir(n):
            for x in walk(n, p):
                yield x


def comp_inside(d, p):
    """component-wise: is path p at or below directory path d (both normalized absolute strings)"""
    dc = [c for c in d.split('/') if c]
    pc = [c for c in p.split('/') if c]
    return pc[:len(dc)] == dc


def mark(tree, base):
    """give every regular file a unique marker telling whether its location is inside `base`"""
    k = 0
    for p, n in walk(tree):
        if not is_dir(n) and n[0] == 'f':
            k += 1
            n[1] = ('IN%dq' if comp_inside(base, p) else 'OUT%dq') % k
    return tree


def put(tree, path, node):
    cs = [c for c in path.split('/') if c]
    t = tree
    for c in cs[:-1]:
        t = t.setdefault(c, {})
        if not is_dir(t):
            return
    if is_dir(t) and cs[-1] not in t:
        t[cs[-1]] = node


BASE = '/r/w/base'

# (path, node-maker) features of the standard world; each toggled per layout
FEATURES = [
    ('/r/w/base/in.tex', F), ('/r/w/base/plain', F), ('/r/w/base/two.latex', F),
    ('/r/w/base/both', F), ('/r/w/base/both.tex', F), ('/r/w/base/tl.tex', F), ('/r/w/base/tl.latex', F),
    ('/r/w/base/sub/deep.tex', F), ('/r/w/base/sub.tex', F),
    ('/r/w/base-evil/x.tex', F), ('/r/w/base-evil/in.tex', F), ('/r/w/base.tex', F), ('/r/w/base.latex', F),
    ('/r/w/basement/x.tex', F), ('/r/w/bas/x.tex', F), ('/r/w/bas.tex', F),
    # siblings that differ from the base directory by letter case only (the file system is case-sensitive)
    ('/r/w/Base/x.tex', F), ('/r/w/BASE/in.tex', F), ('/r/w/base/lcase.tex', lambda: L('../Base/x.tex')),
    # a sibling whose name is the base name followed by a character that is a separator elsewhere (not on POSIX)
    ('/r/w/base\\old/x.tex', F), ('/r/w/base/lbs.tex', lambda: L('../base\\old/x.tex')), ('/r/w/base:x/y.tex', F),
    ('/r/w/secret.tex', F), ('/r/w/out/o.tex', F), ('/r/w/out/in.tex', F), ('/r/other/z.tex', F), ('/top.tex', F),
    # links inside base pointing out
    ('/r/w/base/lnk.tex', lambda: L('../secret.tex')), ('/r/w/base/lnk2.latex', lambda: L('../out/o.tex')),
    ('/r/w/base/labs.tex', lambda: L('/r/w/secret.tex')), ('/r/w/base/lout', lambda: L('../out')),
    ('/r/w/base/lup', lambda: L('..')), ('/r/w/base/lroot', lambda: L('/')),
    ('/r/w/base/levil', lambda: L('../base-evil')), ('/r/w/base/lx', lambda: L('../base-evil/x.tex')),
    ('/r/w/base/sub/lup2', lambda: L('../..')),
    # links inside base pointing inside
    ('/r/w/base/lin.tex', lambda: L('in.tex')), ('/r/w/base/lsub', lambda: L('sub')),
    ('/r/w/base/lself', lambda: L('.')), ('/r/w/base/ldeep', lambda: L('sub/deep.tex')),
    ('/r/w/base/labsin', lambda: L('/r/w/base/in.tex')),
    # chains, dangling, through-file
    ('/r/w/base/c1', lambda: L('c2')), ('/r/w/base/c2', lambda: L('lin.tex')),
    ('/r/w/base/c3.tex', lambda: L('lout/o.tex')), ('/r/w/base/dang', lambda: L('nothing')),
    ('/r/w/base/dang.tex', F), ('/r/w/base/dout', lambda: L('../nothing')), ('/r/w/nothing.tex', F),
    ('/r/w/base/thru', lambda: L('in.tex/../../secret.tex')), ('/r/w/base/slash.tex', lambda: L('in.tex/')),
    # links outside base pointing in / at base
    ('/r/w/out/back', lambda: L('../base')), ('/r/w/out/bfile.tex', lambda: L('../base/in.tex')),
    ('/r/w/blink', lambda: L('base')), ('/r/w/blinkabs', lambda: L('/r/w/base')), ('/r/w/base-link', lambda: L('base-evil')),
    ('/r/w/nodir.tex', F), ('/r/w/afile', F), ('/r/w/afile.tex', F),
]

# ways to spell the configured directory: (cwd, dir, real location it denotes)
DIRSPECS = [
    (None, '/r/w/base', BASE), (None, '/r/w/base/', BASE), (None, '/r/w/blink', BASE), (None, '/r/w/blinkabs/', BASE),
    (None, '/r/w/out/../base', BASE), (None, '/r/w//base/.', BASE), (None, '/r/w/out/back', BASE),
    ('/r/w', 'base', BASE), ('/r/w', './base/', BASE), ('/r/w/base', '', BASE), ('/r/w/base', '.', BASE),
    ('/r/w/out', '../base', BASE), ('/r/w/base/sub', '..', BASE), ('/r', 'w/blink', BASE),
    (None, '/r/w/base/sub', '/r/w/base/sub'), (None, '/r/w', '/r/w'), (None, '/', '/'), (None, '/r/w/bas', '/r/w/bas'),
    (None, '/r/w/nodir', '/r/w/nodir'), (None, '/r/w/afile', '/r/w/afile'), (None, '/r/w/base-link', '/r/w/base-evil'),
    # '..' after a directory link: the parent of the link's target, not of the link's name
    (None, '/r/w/base/lout/..', '/r/w'), (None, '/r/w/out/back/..', '/r/w'), ('/r/w', 'base/lout/..', '/r/w'),
    (None, '/r/w/base/levil/../base', BASE), ('/r/w/base', 'levil/../base/', BASE), (None, '/r/w/base/sub/lup2/../other', '/r/other'),
    ('/r/w/out', 'back/../base', BASE),
]


def mkdirs(tree, path):
    t = tree
    for c in [c for c in path.split('/') if c]:
        t = t.setdefault(c, {})
    return t


def std_layout(rnd, density):
    tree = {}
    for p in ('/r/w/base', '/r/w/out', '/r/other'):
        mkdirs(tree, p)
    for p, mk in FEATURES:
        if rnd.random() < density:
            put(tree, p, mk())
    return tree


MINIMAL = [
    # F7a: sibling directory whose name extends the base name
    ({'w': {'base': {'in.tex': F()}, 'base-evil': {'x.tex': F()}}}, '/w/base', ['../base-evil/x.tex', '../base-evil/x', 'in', '../base/in.tex']),
    # the same with a backslash / colon as the extending character
    ({'w': {'base': {'in.tex': F(), 'lb.tex': L('../base\\x/s.tex')}, 'base\\x': {'s.tex': F()}, 'base:y': {'t.tex': F()}}}, '/w/base',
     ['../base\\x/s.tex', '../base\\x/s', 'lb', 'lb.tex', '/w/base\\x/s.tex', '../base:y/t', 'in']),
    # letter case
    ({'w': {'base': {'in.tex': F(), 'lc.tex': L('../Base/s.tex')}, 'Base': {'s.tex': F(), 'in.tex': F()}}}, '/w/base',
     ['../Base/s.tex', '../Base/s', 'lc', '/w/Base/s.tex', '../Base/in', 'in']),
    # F7a': sibling FILE whose name extends the base name
    ({'w': {'base': {}, 'base.tex': F(), 'base-x': F()}}, '/w/base', ['../base.tex', '../base-x', '../base', '.']),
    # F7b: only the extended name exists and it is a link to an outside file
    ({'w': {'base': {'lnk.tex': L('../secret.tex')}, 'secret.tex': F()}}, '/w/base', ['lnk', 'lnk.tex', '../secret']),
    ({'w': {'base': {'lnk.latex': L('/w/secret.tex')}, 'secret.tex': F()}}, '/w/base', ['lnk', 'lnk.latex', 'sub/../lnk']),
    # F7c: the directory does not exist, a sibling file extends its name
    ({'w': {'nodir.tex': F()}}, '/w/nodir', ['', '.', 'x/..', '../nodir']),
    # directory links in both directions
    ({'w': {'base': {'lout': L('../out'), 'in.tex': F()}, 'out': {'o.tex': F(), 'back': L('../base')}}}, '/w/base',
     ['lout/o', 'lout/back/in', 'lout/../base/in', 'lout/..', '../out/back/in.tex', 'lout/back/lout/o.tex']),
    ({'w': {'base': {'in.tex': F()}, 'blink': L('base'), 'base-evil': {'x.tex': F()}}}, '/w/blink', ['in', '../base-evil/x', '../base/in', '../blink/in']),
    # plain files, shadowing by extension
    ({'b': {'a': F(), 'a.tex': F(), 'c.tex': F(), 'c.latex': F(), 'd.latex': F(), 's': {}, 's.tex': F()}}, '/b',
     ['a', 'a.tex', 'c', 'd', 's', 's.tex', 'c.latex', 'a/', 'a/.', 'a/../c', 'nx/../d', './/c', '/b/c', '/b/../b/d', '/', '/b']),
    # root as directory: everything is inside
    ({'x.tex': F(), 'd': {'y.tex': F()}}, '/', ['x', 'd/y', '/d/../x', '..', '../x']),
    # file link chain that stays inside; dangling link next to a real .tex
    ({'b': {'c1': L('c2'), 'c2': L('t.tex'), 't.tex': F(), 'dang': L('nothing'), 'dang.tex': F(), 'nothing.tex': F()}}, '/b',
     ['c1', 'c2', 't', 'dang', 'dang.tex', 'nothing']),
]


def entry_names(tree):
    """component alphabet a layout suggests: its own names with and without extension"""
    s = collections.Counter()
    for p, n in walk(tree):
        k = p.rsplit('/', 1)[1]
        s[k] += 1
        for e in (TEX, LATEX):
            if k.endswith(e):
                s[k[:-len(e)]] += 1
    return sorted(s)


def abs_prefixes(tree, base):
    out = {'/', base, base + '/'}
    for p, n in walk(tree):
        if is_dir(n) or n[0] == 'l':
            out.add(p)
    return sorted(out)


def gen_names(rnd, tree, base, tier, nsample, cap=None):
    """requested names for a layout: exhaustive part (all component sequences to depth 2/3 over a core
    alphabet) followed by sampled and aimed names; with `cap`, each part is subsampled to about cap/2"""
    comps = entry_names(tree)
    special = ['..', '.', '']
    alpha = comps + special
    names = []
    seen = set()

    def add(n):
        if n not in seen and '\x00' not in n:
            seen.add(n)
            names.append(n)
    add('')
    depth_full = 2 if tier == 'quick' else 3
    if len(alpha) > 14 and depth_full == 3:
        core = rnd.sample(comps, 11) + special
    elif len(alpha) > 24:
        core = rnd.sample(comps, 21) + special
    else:
        core = alpha
    for d in range(1, depth_full + 1):
        for t in itertools.product(core, repeat=d):
            add('/'.join(t))
    nfull = len(names)
    prefixes = abs_prefixes(tree, base)
    weights = comps + ['..'] * max(3, len(comps) // 3) + ['.', '']
    for _ in range(nsample):
        d = rnd.choice([2, 3, 3, 4, 4])
        t = [rnd.choice(weights) for _ in range(d)]
        n = '/'.join(t)
        r = rnd.random()
        if r < 0.25:
            n = rnd.choice(prefixes).rstrip('/') + '/' + n
        elif r < 0.30:
            n = '/' + n
        elif r < 0.33:
            n = '//' + n
        add(n)
    # names aimed at every file / link of the layout, by several routes
    bc = split_comps(base)
    for p, n in walk(tree):
        if is_dir(n):
            continue
        pc = split_comps(p)
        k = 0
        while k < len(bc) and k < len(pc) - 1 and bc[k] == pc[k]:
            k += 1
        rel = '/'.join(['..'] * (len(bc) - k) + pc[k:])
        for r in (rel, p):
            for e in ('', TEX, LATEX):
                if e and not r.endswith(e):
                    continue
                s = r[:len(r) - len(e)] if e else r
                add(s)
                if r is rel:
                    add('./' + s)
                    add(rnd.choice(comps) + '/../' + s)
                    add('../' + bc[-1] + '/' + s if bc else s)
    for p in prefixes:
        add(p)
        for c in rnd.sample(comps, min(6, len(comps))):
            add(p.rstrip('/') + '/' + c)
            add(p.rstrip('/') + '/../' + c)
    if cap and len(names) > cap:
        full, rest = names[:nfull], names[nfull:]
        nf = min(len(full), max(cap - len(rest), cap // 2))
        names = rnd.sample(full, nf) + rnd.sample(rest, min(len(rest), cap - nf))
    return names


# ----------------------------------------------------------------------------
# cases

def w_node(n):
    if is_dir(n):
        out = [0, len(n)]
        for k in sorted(n):
            out += w_str(k) + w_node(n[k])
        return out
    if n[0] == 'f':
        return [1] + w_str(n[1])
    return [2] + w_str(n[1])


def split_comps(p):
    return [c for c in p.split('/') if c]


def _case(tree, cwd, d, strict, names, base=None, l2t=False, sub=0):
    wire = ([1500 + sub] + w_node(tree) + w_list(split_comps(cwd or '/'), w_str) + w_opt(d, w_str)
            + w_bool(strict) + w_list(names, w_str))
    has_link = any((not is_dir(n)) and n[0] == 'l' for _, n in walk(tree))
    return {'wire': wire,
            'desc': {'layout': tree, 'cwd': cwd, 'dir': d, 'strict': strict, 'names': names, 'base': base, 'l2t': l2t},
            'nt': bool(d is not None and (has_link or any('/' in n.strip('/') for n in names)))}


def case_from_desc(d):
    c = _case(d['layout'], d.get('cwd'), d.get('dir'), d.get('strict', True), d['names'], d.get('base'), d.get('l2t', False))
    if d.get('realroot'):
        c['desc']['realroot'] = True
    return c


def chunks(l, n):
    return [l[i:i + n] for i in range(0, len(l), n)]


def gen_cases(seed, tier):
    import copy
    rnd = random.Random(seed * 7919 + 15)
    cases = []
    quick = tier == 'quick'
    # 1. minimal layouts, small wires (these are the ones vm_compute cross-checks)
    for tree, d, names in MINIMAL:
        tree = mark(copy.deepcopy(tree), d)
        more = gen_names(rnd, tree, d, 'quick', 30)
        for strict in (True, False):
            cases.append(_case(tree, None, d, strict, names, d, l2t=True))
            cases.append(_case(tree, None, d + '/', strict, names, d))
        for ch in chunks(more, 8)[: (12 if quick else 200)]:
            cases.append(_case(tree, None, d, True, ch, d, l2t=True))
        cases.append(_case(tree, None, None, True, names, d))        # no directory set
    # 2. standard world at several densities x ways of naming the directory
    nlay = 10 if quick else 36
    for i in range(nlay):
        density = [1.0, 0.75, 0.5, 0.3][i % 4]
        raw = std_layout(rnd, density)
        specs = DIRSPECS if i == 0 else rnd.sample(DIRSPECS, 3 if quick else 5)
        for (cwd, d, base) in specs:
            tree = copy.deepcopy(raw)
            if cwd:
                mkdirs(tree, cwd)                      # the current directory must exist
            tree = mark(tree, base)
            names = gen_names(rnd, tree, base, tier if i < 3 else 'quick', 150 if quick else 1500,
                              cap=700 if quick else None)
            strict = rnd.random() < 0.8
            for j, ch in enumerate(chunks(names, 24)):
                cases.append(_case(tree, cwd, d, strict, ch, base, l2t=(j % 3 == 0)))
    # 3. random small worlds
    nrand = 40 if quick else 400
    pool = ['a', 'b', 'base', 'base-evil', 'x.tex', 'a.tex', 'b.latex', 'l', 'l.tex', 'm']
    for i in range(nrand):
        tree = {'w': {'base': {}}}
        targets = ['..', '../x.tex', 'a', 'a.tex', '/w', '/w/base', '../base-evil', '../base-evil/x.tex', 'b/..', '.', '../a.tex',
                   'l', 'm', '../../w/a', '/w/base/a.tex', 'x.tex/..', 'nothing']
        for _ in range(rnd.randint(3, 9)):
            where = rnd.choice(['/w', '/w/base', '/w/base', '/w/base-evil', '/w/base/a', '/w/b'])
            nm = rnd.choice(pool)
            kind = rnd.random()
            node = F() if kind < 0.5 else (L(rnd.choice(targets)) if kind < 0.85 else {})
            put(tree, where + '/' + nm, node)
        d = rnd.choice(['/w/base', '/w/base', '/w/base/', '/w/base/a', '/w/b', '/w/l', '/w/m', '/w/l/..', '/w/base/l/..', '/w/base/m/../base'])
        tree = mark(tree, '/w/base')
        names = gen_names(rnd, tree, '/w/base', 'quick', 40)
        names = names[:20] + rnd.sample(names[20:], min(len(names) - 20, 60 if quick else 300))
        for j, ch in enumerate(chunks(names, 10)):
            cases.append(_case(tree, None, d, True, ch, '/w/base', l2t=(j % 4 == 0)))
    return cases


# ----------------------------------------------------------------------------
# building a layout for real

def _scratch_parent():
    p = os.path.realpath(tempfile.gettempdir())
    for bad in ('/repo', '/verif', os.path.realpath(os.environ.get('VERIF_REPO', '/repo'))):
        if p == bad or p.startswith(bad + os.sep):
            raise RuntimeError('scratch directory %s is inside %s' % (p, bad))
    return p


class Layout(object):
    """context manager: builds desc['layout'] under a fresh mkdtemp(), removes it on exit"""

    def __init__(self, desc):
        self.desc = desc
        self.T = None
        self.oldcwd = None

    def __enter__(self):
        parent = _scratch_parent()
        while True:
            T = tempfile.mkdtemp(prefix='c15-', dir=parent)
            if '_' not in os.path.basename(T):      # keep the path free of TeX-special characters
                break
            os.rmdir(T)
        self.T = os.path.realpath(T)
        try:
            self._build(self.T, self.desc['layout'])
            if self.desc.get('cwd'):
                self.oldcwd = os.getcwd()
                os.chdir(self.T + self.desc['cwd'])
        except BaseException:
            self.__exit__()                       # never leave a layout behind
            raise
        return self

    def _build(self, at, tree):
        for k in sorted(tree):
            n = tree[k]
            p = os.path.join(at, k)
            if is_dir(n):
                os.mkdir(p)
                self._build(p, n)
            elif n[0] == 'f':
                with open(p, 'w') as f:
                    f.write(n[1])
            else:
                t = n[1]
                os.symlink(self.T + t if t.startswith('/') else t, p)

    def __exit__(self, *a):
        if self.oldcwd is not None:
            os.chdir(self.oldcwd)
            self.oldcwd = None
        shutil.rmtree(self.T, ignore_errors=True)
        return False

    # model-space <-> real
    def real(self, p):
        """a model-space name/directory as handed to the real code"""
        if p is None:
            return None
        if self.desc.get('realroot') and p == '/':
            return '/'                                # the machine's real root directory (oracle-only cases)
        if self.desc.get('realroot') and not p.startswith('/'):
            return self.T.lstrip('/') + '/' + p       # relative to the real root
        return self.T + p if p.startswith('/') else p

    def model(self, rp):
        if rp == self.T:
            return '/'
        if rp.startswith(self.T + '/'):
            return rp[len(self.T):]
        return None                                   # climbed above the layout root


def _texable(fn):
    return all(c.isalnum() or c in './-' for c in fn) and '--' not in fn and fn == fn.strip()


def impl(c):
    from pylatexenc.latex2text._inputlatexfile import read_latex_file
    from pylatexenc.latex2text import LatexNodes2Text
    d = c['desc']
    with Layout(d) as lay:
        rd = lay.real(d['dir'])
        l2t = LatexNodes2Text()
        if rd is not None:
            l2t.set_tex_input_directory('/', strict_input=not d['strict'])       # an earlier configuration of the same object
            l2t.set_tex_input_directory(rd, strict_input=d['strict'])
            dm = lay.model(os.path.realpath(rd))
            out = ['D=' + ('ESC' if dm is None else show_str(dm))]
        else:
            out = ['D=-']
        for fn in d['names']:
            rfn = lay.real(fn)
            if rd is None:
                out.append(show_str(l2t.read_input_file(rfn)) + ';-')
                continue
            r = read_latex_file(rd, d['strict'], rfn)
            r2 = l2t.read_input_file(rfn)
            if r2 != r:
                r = 'API-MISMATCH read_input_file=%r read_latex_file=%r' % (r2, r)
            elif d.get('l2t') and _texable(rfn):
                r3 = l2t.latex_to_text('\\input{%s}' % rfn)
                r4 = l2t.latex_to_text('\\include{%s}' % rfn)
                if r3 != r or r4 != r:
                    r = 'API-MISMATCH latex_to_text=%r/%r read_latex_file=%r' % (r3, r4, r)
            pm = lay.model(os.path.realpath(os.path.join(rd, rfn)))
            out.append(show_str(r) + ';' + ('ESC' if pm is None else show_str(pm)))
        return ' '.join(out)


def same(m, i, c):
    """token-wise; names whose resolution climbs above the layout root (ESC) or on which the model ran out
    of fuel (L / '-': symlink loop) are outside the model's domain and are left to the oracle"""
    ms, is_ = m.split(' '), i.split(' ')
    if len(ms) != len(is_):
        return False
    if c['desc']['dir'] is None:
        return m == i
    if is_[0] == 'D=ESC' or ms[0] == 'D=-':
        return True
    if ms[0] != is_[0]:
        return False
    for a, b in zip(ms[1:], is_[1:]):
        if a == b or b.endswith(';ESC') or a.startswith('L;') or a.endswith(';-'):
            continue
        return False
    return True


# ----------------------------------------------------------------------------
# the property on the real code

def _kernel_realpath(p):
    """the kernel's own canonical path of an existing file or directory (not os.path.realpath)"""
    try:
        fd = os.open(p, os.O_RDONLY | getattr(os, 'O_PATH', 0))
    except OSError:
        return None
    try:
        return os.readlink('/proc/self/fd/%d' % fd)
    finally:
        os.close(fd)


def _marker_index(T):
    idx = {}
    for root, dirs, files in os.walk(T, followlinks=False):
        for f in files:
            p = os.path.join(root, f)
            if os.path.islink(p):
                continue
            with open(p) as fh:
                idx[fh.read()] = p
    return idx


class _Counter(object):
    """counts file-system calls during a call (for: no directory set => no file access)"""
    NAMES = [('os', 'stat'), ('os', 'lstat'), ('os', 'readlink'), ('builtins', 'open'), ('os', 'open'), ('os', 'listdir')]

    def __enter__(self):
        import builtins
        self.n = 0
        self.saved = []
        mods = {'os': os, 'builtins': builtins}
        for m, a in self.NAMES:
            orig = getattr(mods[m], a)
            self.saved.append((mods[m], a, orig))

            def wrap(*x, _o=orig, **k):
                self.n += 1
                return _o(*x, **k)
            setattr(mods[m], a, wrap)
        return self

    def __exit__(self, *a):
        for m, a_, o in self.saved:
            setattr(m, a_, o)
        return False


def oracle(c):
    if c['desc'].get('nested'):
        return _oracle_nested(c)
    from pylatexenc.latex2text._inputlatexfile import read_latex_file
    from pylatexenc.latex2text import LatexNodes2Text
    d = c['desc']
    with Layout(d) as lay:
        rd = lay.real(d['dir'])
        if rd is None:
            l2t = LatexNodes2Text()
            for fn in d['names']:
                with _Counter() as k:
                    r = l2t.read_input_file(lay.real(fn))
                    r2 = l2t.latex_to_text('\\input{%s}' % lay.real(fn)) if _texable(lay.real(fn)) else ''
                if r != '' or r2 != '' or k.n:
                    return ('no-directory-but-file-access', {'name': fn, 'returned': [r, r2], 'fs_calls': k.n})
            return None
        idx = _marker_index(lay.T)
        dreal = _kernel_realpath(rd)
        if dreal is None:                 # directory does not exist: nothing can be inside it
            dreal = os.path.realpath(rd)
        l2t = LatexNodes2Text()
        # the same converter was first configured for ANOTHER directory without strict mode (history on one object):
        # the second call, with the documented default strict_input=True, is what counts
        l2t.set_tex_input_directory(os.path.dirname(rd.rstrip('/')) or '/', strict_input=False)
        l2t.set_tex_input_directory(rd, strict_input=True)

        def mp(p):
            return lay.model(p) if p is not None and lay.model(p) is not None else p

        for fn in d['names']:
            rfn = lay.real(fn)
            r = read_latex_file(rd, True, rfn)
            info = {'name': fn, 'dir': d['dir'], 'cwd': d.get('cwd'), 'real_dir': mp(dreal), 'returned': r}
            # clause 1: never the content of a file whose real path is outside the real directory
            if r != '':
                loc = idx.get(r)
                if loc is None:
                    return ('returned-unknown-content', info)
                if not comp_inside(dreal, loc):
                    pre = os.path.realpath(os.path.join(rd, rfn))
                    if loc.startswith(dreal) and pre.startswith(dreal) and not comp_inside(dreal, pre):
                        sig = 'outside-content-returned:string-prefix-containment'
                    elif comp_inside(dreal, pre):
                        sig = 'outside-content-returned:extension-added-after-check'
                    else:
                        sig = 'outside-content-returned'
                    return (sig, dict(info, file_read=mp(loc), resolved_before_extension=mp(pre),
                                      expected='"" (the file is outside the directory)'))
            # same through the public entry points
            if l2t.read_input_file(rfn) != r:
                return ('api-paths-differ', dict(info, read_input_file=l2t.read_input_file(rfn)))
            if d.get('l2t') and _texable(rfn):
                for mac in ('input', 'include'):
                    t = l2t.latex_to_text('\\%s{%s}' % (mac, rfn))
                    if t != r:
                        return ('api-paths-differ', dict(info, macro=mac, latex_to_text=t))
            # clause 2a: strict mode loses nothing that is inside (reference: the non-strict answer)
            rn = read_latex_file(rd, False, rfn)
            if rn != '' and rn in idx and comp_inside(dreal, idx[rn]) and r != rn:
                return ('inside-file-not-read', dict(info, nonstrict_returned=rn, file=mp(idx[rn])))
            if r != '' and r != rn:
                return ('strict-reads-other-file-than-nonstrict', dict(info, nonstrict_returned=rn))
            # clause 2b: reference = the kernel.  The first of name, name.tex, name.latex that exists, is a
            # regular file and really lies inside the directory must be what is returned.
            full = os.path.join(rd, rfn)
            last = full.rstrip('/').rsplit('/', 1)[-1]
            if full.endswith('/') or last in ('', '.', '..'):
                continue
            for ext in ('', TEX, LATEX):
                cand = full + ext
                if ext and os.path.islink(full):
                    break                  # realpath is taken before the extension is added: not comparable
                if os.path.exists(cand):
                    kr = _kernel_realpath(cand)
                    if os.path.isfile(cand) and kr is not None and comp_inside(dreal, kr):
                        with open(cand) as fh:
                            exp = fh.read()
                        if r != exp:
                            return ('inside-file-not-read:kernel-reference',
                                    dict(info, expected=exp, file=mp(kr), candidate=mp(cand)))
                    break
        return None


def extra_search(seed, tier, broken):
    """layouts outside the model's domain (symlink loops; the machine's real root directory as the
    configured directory), evaluated by the oracle only"""
    import copy
    out = []
    loops = [
        {'w': {'base': {'loop': L('loop'), 'a': L('b'), 'b': L('a'), 'in.tex': F(), 'a.tex': L('../secret.tex'),
                        'd': L('d/x'), 'e': L('../base/e/..'), 'loop.tex': L('../secret.tex')},
               'secret.tex': F(), 'base-evil': {'x.tex': F()}}},
        {'w': {'base': {'p': L('q/../../secret.tex'), 'q': L('p'), 'r': L('r/../in.tex'), 'in.tex': F(),
                        'r.tex': L('/w/secret.tex')}, 'secret.tex': F()}},
    ]
    rnd = random.Random(seed + 1515)
    # the machine's real root as the configured directory: everything is inside and must be read
    # (the layout root only stands for "/" in the model; a real "/" ends with the separator)
    for tree, d, names in MINIMAL[:3] + MINIMAL[7:9]:
        tree = mark(copy.deepcopy(tree), '/')
        names = [n for n in gen_names(rnd, tree, d, 'quick', 30) if '..' not in n.split('/')][:60]
        c = _case(tree, None, '/', True, names, '/')
        c['desc']['realroot'] = True
        out.append(c)
    for t in loops:
        tree = mark(copy.deepcopy(t), '/w/base')
        names = gen_names(rnd, tree, '/w/base', 'quick', 60)
        for ch in chunks(names, 24):
            out.append(_case(tree, None, '/w/base', True, ch, '/w/base', l2t=False))
    out += nested_cases(rnd, tier)
    return out


def nested_cases(rnd, tier):
    """\\input inside an included file: the inner name is resolved against the CONFIGURED directory like any other
    (oracle only).  First-level files n1..n4 (inside the directory, reached under several names, also through links
    that leave and re-enter it) contain their marker followed by \\input{X}; X is any generated name."""
    import copy
    out = []
    hand = {'w': {'base': {'inner.tex': ['f', 'INinnerq\\input{secret}'], 'ext': L('../elsewhere'), 'in2.tex': ['f', 'INtwoq\\input{leaf}'],
                           'leaf.tex': ['f', 'INleafq']},
                  'elsewhere': {'back.tex': L('../base/inner.tex'), 'secret.tex': ['f', 'OUTsecretq'], 'leaf.tex': ['f', 'OUTleafq'],
                                'two.tex': L('/w/base/in2.tex')}}}
    out.append(_nested_case(hand, '/w/base', ['ext/back', 'ext/back.tex', '../elsewhere/back', '/w/elsewhere/back', 'inner', 'in2', 'ext/two',
                                              '../elsewhere/two.tex']))
    for i in range(6 if tier == 'quick' else 40):
        tree = mark(std_layout(rnd, [1.0, 0.75][i % 2]), BASE)
        pool = [n for n in gen_names(rnd, tree, BASE, 'quick', 80) if _texable(n) and 'n1' not in n and 'nn' not in n]
        firsts = []
        for k in range(4):
            x = rnd.choice(pool)
            put(tree, BASE + '/nn%d.tex' % k, ['f', 'INnn%dq\\input{%s}' % (k, x)])
            firsts.append('nn%d' % k)
        # the first-level files reached through links outside the directory that point back into it
        put(tree, '/r/w/out/viann0.tex', L('../base/nn0.tex'))
        put(tree, '/r/other/viann1.tex', L('/r/w/base/nn1.tex'))
        names = firsts + ['lout/viann0', '../out/viann0', '../../other/viann1', '/r/other/viann1.tex', 'sub/../nn2', './nn3.tex']
        out.append(_nested_case(tree, BASE, names))
    return out


def _nested_case(tree, d, names):
    return {'wire': [1599], 'nt': True, 'desc': {'layout': tree, 'cwd': None, 'dir': d, 'strict': True, 'names': names,
                                                   'base': d, 'l2t': True, 'nested': True}}


def _oracle_nested(c):
    import re
    from pylatexenc.latex2text._inputlatexfile import read_latex_file
    from pylatexenc.latex2text import LatexNodes2Text
    d = c['desc']
    with Layout(d) as lay:
        rd = lay.real(d['dir'])
        l2t = LatexNodes2Text()
        l2t.set_tex_input_directory(rd, strict_input=True)

        def expand(txt, depth=0):
            # what the text of an included file converts to: its marker, every \\input{X} in it replaced by the
            # conversion of what the configured directory holds under X (one-level lookups are judged elsewhere)
            if depth > 6:
                return txt
            return re.sub(r'\\input\{([^}]*)\}', lambda m: expand(read_latex_file(rd, True, m.group(1)), depth + 1), txt)
        for fn in d['names']:
            rfn = lay.real(fn)
            if not _texable(rfn):
                continue
            try:
                got = l2t.latex_to_text('\\input{%s}' % rfn)
            except RecursionError:
                continue
            want = expand(read_latex_file(rd, True, rfn))
            if 'OUT' in got and 'OUT' not in want:
                return ('outside-content-returned:nested-input', {'name': fn, 'returned': got, 'expected': want})
            if got != want:
                return ('nested-input-differs-from-lookup-in-configured-directory', {'name': fn, 'returned': got, 'expected': want})
    return None


def distribution(cases, impl_out):
    k = collections.Counter()
    for c, i in zip(cases, impl_out):
        d = c['desc']
        k['cases'] += 1
        k['strict' if d['strict'] else 'nonstrict'] += 1
        if d['dir'] is None:
            k['no_directory'] += 1
        if d.get('cwd'):
            k['relative_directory'] += 1
        if not isinstance(i, str):
            k['harness_failures'] += 1
            continue
        for tok in i.split(' ')[1:]:
            k['names'] += 1
            r = tok.split(';')[0]
            if r == '""':
                k['returned_empty'] += 1
            else:
                s = ''.join(chr(int(x)) for x in r.strip('"').split('.')) if r.startswith('"') else r
                if s.startswith('IN'):
                    k['returned_inside_marker'] += 1
                elif s.startswith('OUT'):
                    k['returned_outside_marker(strict:violation, nonstrict:allowed)'] += 1
                else:
                    k['returned_other'] += 1
            if tok.endswith(';ESC'):
                k['names_climbing_above_layout_root'] += 1
    k['distinct_layouts'] = len({str(c['desc']['layout']) for c in cases})
    return dict(k)
