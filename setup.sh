#!/bin/sh
# Build the whole framework from files on disk (offline): regenerate the tables
# from /repo, full .vo build of the Coq development, extracted model binary.
cd "$(dirname "$0")"
export VERIF_REPO=${VERIF_REPO:-/repo}
export PYTHONPATH=$VERIF_REPO PYTHONHASHSEED=0 PYTHONDONTWRITEBYTECODE=1
exec /venv/bin/python - <<'PY'
import sys
sys.path.insert(0, 'harness')
import common
ok, out = common.build()
print(out[-3000:])
bad = common.grep_gate()
if bad:
    print('grep gate:', bad)
sys.exit(0 if ok and not bad else 1)
PY
