Require Import Spike.
From Coq Require Import List Lia.
Import ListNotations.

Ltac step f f' K :=
  match goal with
  | H : context [match run f ?y with _ => _ end] |- _ =>
      let E := fresh "E" in
      destruct (run f y) eqn:E;
      [ rewrite (K y) by (rewrite E; discriminate); rewrite ?E
      | rewrite (K y) by (rewrite E; discriminate); rewrite ?E
      | exfalso; congruence ]
  | H : context [match ?x with _ => _ end] |- _ =>
      lazymatch x with
      | context [run] => fail
      | _ => let E := fresh "E" in destruct x eqn:E
      end
  end.

Lemma run_mono : forall f t r, run f t = r -> r <> OutOfFuel -> forall f', f <= f' -> run f' t = r.
Proof.
  induction f as [|f IH]; intros t r H Hr f' Hle; [simpl in H; congruence|].
  destruct f' as [|f']; [lia|]. assert (Hle' : f <= f') by lia.
  assert (K : forall x, run f x <> OutOfFuel -> run f' x = run f x).
  { intros x Hx. apply (IH x (run f x) eq_refl Hx f' Hle'). }
  clear IH Hle Hle'.
  revert H. cbn [run]. intros H.
  repeat (step f f' K).
  all: try congruence.
  all: try (rewrite K; congruence).
Qed.
Print Assumptions run_mono.
