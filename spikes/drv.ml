open Spike
let rec n_of_int i = if i = 0 then N0 else Npos (pos_of_int i)
and pos_of_int i = if i = 1 then XH else if i land 1 = 0 then XO (pos_of_int (i lsr 1)) else XI (pos_of_int (i lsr 1))
let rec nat_to_int = function O -> 0 | S n -> 1 + nat_to_int n
let () =
  let cnt = ref 0 and okc = ref 0 in
  (try while true do
    let l = input_line stdin in
    let cs = List.init (String.length l) (fun i -> n_of_int (Char.code l.[i])) in
    incr cnt;
    (match parse cs with Ok _ -> incr okc | _ -> ())
  done with End_of_file -> ());
  Printf.printf "%d cases, %d ok\n" !cnt !okc
