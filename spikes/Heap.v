From stdpp Require Import gmap list.
Inductive obj := OList (l : list nat) | ODict (d : gmap nat nat).
Notation heap := (gmap nat obj).
Definition alloc (h : heap) (o : obj) : heap * nat :=
  (<[fresh (dom h) := o]> h, fresh (dom h)).
Lemma alloc_fresh h o : h !! (snd (alloc h o)) = None.
Proof. unfold alloc; simpl. apply not_elem_of_dom. apply is_fresh. Qed.
Lemma alloc_preserves h o l x : h !! l = Some x -> (fst (alloc h o)) !! l = Some x.
Proof.
  intros H. unfold alloc; cbn [fst]. rewrite lookup_insert_ne; auto.
  intros <-. pose proof (is_fresh (dom h)) as F. apply not_elem_of_dom in F. congruence.
Qed.
Print Assumptions alloc_preserves.
Definition ex := fst (alloc (fst (alloc ∅ (OList [1;2]))) (ODict {[ 1 := 2 ]})).
Eval vm_compute in (ex !! 0).
