From Coq Require Import NArith List Bool Lia.
Import ListNotations.
Open Scope N_scope.
Definition str := list N.
Definition is_space (c:N) : bool := (c =? 32) || (c =? 10) || (c =? 9) || (c =? 13).
Definition is_alpha (c:N) : bool := ((65 <=? c) && (c <=? 90)) || ((97 <=? c) && (c <=? 122)).

Inductive node :=
| NChars (p e : nat) (cs : str)
| NGroup (p e : nat) (body : option (list node))
| NMacro (p e : nat) (name : str) (args : list (option node))
| NMath  (p e : nat) (body : option (list node)).

Inductive tok := TChar (c:N) | TOpen | TClose | TMacro (name:str) | TDollar.
Record token := { tk : tok; tpre : str; tpos : nat; tend : nat }.

Fixpoint span_ (f : N -> bool) (s : str) : str * str :=
  match s with
  | c :: r => if f c then let (a,b) := span_ f r in (c::a, b) else ([], s)
  | [] => ([], [])
  end.

(* s is the REMAINING input, pos its absolute offset *)
Definition peek (s : str) (pos : nat) : option (token * str) :=
  let (pre, r) := span_ is_space s in
  let p := (pos + length pre)%nat in
  match r with
  | [] => None
  | 92 :: c :: r' =>
      if is_alpha c then let (nm, r'') := span_ is_alpha r' in
        let (post, r3) := span_ is_space r'' in
        Some ({| tk := TMacro (c::nm); tpre := pre; tpos := p; tend := (p + 2 + length nm + length post)%nat |}, r3)
      else Some ({| tk := TMacro [c]; tpre := pre; tpos := p; tend := (p+2)%nat |}, r')
  | 123 :: r' => Some ({| tk := TOpen; tpre := pre; tpos := p; tend := S p |}, r')
  | 125 :: r' => Some ({| tk := TClose; tpre := pre; tpos := p; tend := S p |}, r')
  | 36 :: r' => Some ({| tk := TDollar; tpre := pre; tpos := p; tend := S p |}, r')
  | c :: r' => Some ({| tk := TChar c; tpre := pre; tpos := p; tend := S p |}, r')
  end.

Inductive res A := Ok (a:A) | Err (pos:nat) | OutOfFuel.
Arguments Ok {A}. Arguments Err {A}. Arguments OutOfFuel {A}.

Inductive stop := StopNone | StopBrace | StopDollar.
Definition arity (name : str) : nat := match name with [102] => 2%nat | [98] => 1%nat | _ => 0%nat end.

Inductive task :=
| TGeneral (st : stop) (s : str) (pos : nat) (acc : list node) (pend : str) (ppos : nat)
| TArgs (n : nat) (s : str) (pos : nat) (acc : list (option node)).
Inductive out :=
| ONodes (ns : list node) (closed : bool) (s : str) (pos : nat)
| OArgs (a : list (option node)) (s : str) (pos : nat).

Definition flush (acc : list node) (pend : str) (ppos : nat) : list node :=
  match pend with [] => acc | _ => NChars ppos (ppos + length pend)%nat (rev pend) :: acc end.

Fixpoint run (fuel : nat) (t : task) : res out :=
  match fuel with O => OutOfFuel | S fuel' =>
  match t with
  | TGeneral st s pos acc pend ppos =>
      match peek s pos with
      | None => match st with StopNone => Ok (ONodes (rev (flush acc (rev_append s pend) (match pend with [] => pos | _ => ppos end))) false [] (pos + length s)%nat)
                | _ => Err pos end
      | Some (t0, s') =>
          let pend1 := rev_append (tpre t0) pend in
          let ppos1 := match pend with [] => (tpos t0 - length (tpre t0))%nat | _ => ppos end in
          match tk t0 with
          | TChar c => run fuel' (TGeneral st s' (tend t0) acc (c :: pend1) ppos1)
          | TClose => match st with StopBrace => Ok (ONodes (rev (flush acc pend1 ppos1)) true s' (tend t0)) | _ => Err (tpos t0) end
          | TDollar => match st with
                       | StopDollar => Ok (ONodes (rev (flush acc pend1 ppos1)) true s' (tend t0))
                       | _ => match run fuel' (TGeneral StopDollar s' (tend t0) [] [] 0%nat) with
                              | Ok (ONodes b _ s2 p2) => run fuel' (TGeneral st s2 p2 (NMath (tpos t0) p2 (Some b) :: flush acc pend1 ppos1) [] 0%nat)
                              | Ok _ => Err 0%nat | Err p => Err p | OutOfFuel => OutOfFuel end
                       end
          | TOpen => match run fuel' (TGeneral StopBrace s' (tend t0) [] [] 0%nat) with
                     | Ok (ONodes b _ s2 p2) => run fuel' (TGeneral st s2 p2 (NGroup (tpos t0) p2 (Some b) :: flush acc pend1 ppos1) [] 0%nat)
                     | Ok _ => Err 0%nat | Err p => Err p | OutOfFuel => OutOfFuel end
          | TMacro nm => match run fuel' (TArgs (arity nm) s' (tend t0) []) with
                     | Ok (OArgs a s2 p2) => run fuel' (TGeneral st s2 p2 (NMacro (tpos t0) p2 nm a :: flush acc pend1 ppos1) [] 0%nat)
                     | Ok _ => Err 0%nat | Err p => Err p | OutOfFuel => OutOfFuel end
          end
      end
  | TArgs O s pos acc => Ok (OArgs (rev acc) s pos)
  | TArgs (S n) s pos acc =>
      match peek s pos with
      | None => Err pos
      | Some (t0, s') =>
          match tk t0 with
          | TOpen => match run fuel' (TGeneral StopBrace s' (tend t0) [] [] 0%nat) with
                     | Ok (ONodes b _ s2 p2) => run fuel' (TArgs n s2 p2 (Some (NGroup (tpos t0) p2 (Some b)) :: acc))
                     | Ok _ => Err 0%nat | Err p => Err p | OutOfFuel => OutOfFuel end
          | TChar c => run fuel' (TArgs n s' (tend t0) (Some (NChars (tpos t0) (tend t0) [c]) :: acc))
          | TMacro nm => run fuel' (TArgs n s' (tend t0) (Some (NMacro (tpos t0) (tend t0) nm []) :: acc))
          | _ => Err (tpos t0)
          end
      end
  end end.

Definition parse (s : str) := run (4 * length s + 8) (TGeneral StopNone s 0%nat [] [] 0%nat).
Definition ex1 : str := [97;32;123;98;125;92;102;123;97;125;120;36;121;36;32].
Eval vm_compute in parse ex1.

Require Import ExtrOcamlBasic.
Extraction "spike.ml" parse.
