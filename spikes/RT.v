Require Import Spike Mono.
From Coq Require Import NArith Arith PeanoNat List Lia Bool.
Import ListNotations.
Open Scope N_scope.

Definition evals (t : task) (o : out) : Prop := exists f, run f t = Ok o.

(* ---------- rule lemmas (one per branch of run that the grammar exercises) ---------- *)
Lemma peek_alpha c r pos : is_alpha c = true ->
  peek (c :: r) pos = Some ({| tk := TChar c; tpre := []; tpos := pos; tend := S pos |}, r).
Proof.
  intros H. unfold peek. cbn [span_].
  assert (Hs : is_space c = false).
  { unfold is_alpha, is_space in *.
    destruct (c =? 32) eqn:E1; [apply N.eqb_eq in E1; subst; discriminate|].
    destruct (c =? 10) eqn:E2; [apply N.eqb_eq in E2; subst; discriminate|].
    destruct (c =? 9) eqn:E3; [apply N.eqb_eq in E3; subst; discriminate|].
    destruct (c =? 13) eqn:E4; [apply N.eqb_eq in E4; subst; discriminate|]. reflexivity. }
  rewrite Hs. cbn [length Nat.add].
  assert (c <> 92 /\ c <> 123 /\ c <> 125 /\ c <> 36).
  { unfold is_alpha in H. repeat split; intros ->; discriminate. }
  destruct H0 as (A & B & C & D).
  rewrite Nat.add_0_r.
  destruct c as [|p]; [discriminate|].
  repeat (destruct p as [p|p|]; try reflexivity; try congruence).
Qed.

Lemma rule_char st c r pos acc pend ppos o : is_alpha c = true ->
  evals (TGeneral st r (S pos) acc (c :: pend) (match pend with [] => pos | _ => ppos end)) o ->
  evals (TGeneral st (c :: r) pos acc pend ppos) o.
Proof.
  intros Hc [f H]. exists (S f). cbn [run]. rewrite peek_alpha by assumption. cbn.
  rewrite Nat.sub_0_r. exact H.
Qed.

Lemma peek_open r pos : peek (123 :: r) pos = Some ({| tk := TOpen; tpre := []; tpos := pos; tend := S pos |}, r).
Proof. unfold peek. cbn. rewrite Nat.add_0_r. reflexivity. Qed.
Lemma peek_close r pos : peek (125 :: r) pos = Some ({| tk := TClose; tpre := []; tpos := pos; tend := S pos |}, r).
Proof. unfold peek. cbn. rewrite Nat.add_0_r. reflexivity. Qed.

Lemma rule_close r pos acc pend ppos :
  evals (TGeneral StopBrace (125 :: r) pos acc pend ppos) (ONodes (rev (flush acc pend ppos)) true r (S pos)).
Proof. exists 1%nat. cbn [run]. rewrite peek_close. cbn. destruct pend; reflexivity. Qed.

Lemma rule_group st r pos acc pend ppos b s2 p2 cl o :
  evals (TGeneral StopBrace r (S pos) [] [] 0%nat) (ONodes b cl s2 p2) ->
  evals (TGeneral st s2 p2 (NGroup pos p2 (Some b) :: flush acc pend (match pend with [] => pos | _ => ppos end)) [] 0%nat) o ->
  evals (TGeneral st (123 :: r) pos acc pend ppos) o.
Proof.
  intros [f1 H1] [f2 H2]. exists (S (max f1 f2)). cbn [run]. rewrite peek_open. cbn.
  rewrite (run_mono _ _ _ H1) by (try discriminate; lia).
  rewrite Nat.sub_0_r.
  eapply run_mono; [exact H2|discriminate|lia].
Qed.

Lemma rule_eof acc pend ppos pos :
  evals (TGeneral StopNone [] pos acc pend ppos) (ONodes (rev (flush acc pend (match pend with [] => pos | _ => ppos end))) false [] (pos + 0)%nat).
Proof. exists 1%nat. reflexivity. Qed.

(* ---------- document grammar, printer, intended tree ---------- *)
Inductive item := Text (cs : str) | Grp (b : list item).

Fixpoint unparse_item (i : item) : str :=
  match i with Text cs => cs | Grp b => 123 :: flat_map unparse_item b ++ [125] end.
Definition unparse (d : list item) : str := flat_map unparse_item d.

Fixpoint ok_item (i : item) : bool :=
  match i with
  | Text cs => negb (Nat.eqb (length cs) 0) && forallb is_alpha cs
  | Grp b => forallb ok_item b
  end.

(* collector state after absorbing items: the SPEC of what the document means *)
Record cst := { c_acc : list node; c_pend : str; c_ppos : nat }.
Definition cflush (c : cst) := flush (c_acc c) (c_pend c) (c_ppos c).

Fixpoint absorb_item (pos : nat) (c : cst) (i : item) {struct i} : cst :=
  match i with
  | Text cs => {| c_acc := c_acc c; c_pend := rev_append cs (c_pend c);
                  c_ppos := match c_pend c with [] => pos | _ => c_ppos c end |}
  | Grp b =>
      let inner := (fix go (p : nat) (c : cst) (l : list item) : cst :=
                      match l with [] => c | i :: r => go (p + length (unparse_item i))%nat (absorb_item p c i) r end)
                   (S pos) {| c_acc := []; c_pend := []; c_ppos := 0%nat |} b in
      {| c_acc := NGroup pos (pos + length (unparse_item (Grp b)))%nat (Some (rev (cflush inner)))
                  :: flush (c_acc c) (c_pend c) (match c_pend c with [] => pos | _ => c_ppos c end);
         c_pend := []; c_ppos := 0%nat |}
  end.
Fixpoint absorb (pos : nat) (c : cst) (l : list item) : cst :=
  match l with [] => c | i :: r => absorb (pos + length (unparse_item i))%nat (absorb_item pos c i) r end.

Lemma absorb_item_grp pos c b :
  absorb_item pos c (Grp b) =
  {| c_acc := NGroup pos (pos + length (unparse_item (Grp b)))%nat
                (Some (rev (cflush (absorb (S pos) {| c_acc := []; c_pend := []; c_ppos := 0%nat |} b))))
              :: flush (c_acc c) (c_pend c) (match c_pend c with [] => pos | _ => c_ppos c end);
     c_pend := []; c_ppos := 0%nat |}.
Proof.
  cbn [absorb_item].
  match goal with |- context [(fix go (p : nat) (c : cst) (l : list item) {struct l} : cst := _) ?a ?c0 ?bb] =>
    replace ((fix go (p : nat) (c : cst) (l : list item) {struct l} : cst :=
                 match l with [] => c | i :: r => go (p + length (unparse_item i))%nat (absorb_item p c i) r end) a c0 bb)
      with (absorb a c0 bb) end; [reflexivity|].
  generalize (S pos) {| c_acc := []; c_pend := []; c_ppos := 0%nat |}.
  induction b as [|i r IH]; intros p c0; cbn; auto.
Qed.

(* text absorption *)
Lemma text_sim st cs : forall r pos acc pend ppos o, forallb is_alpha cs = true ->
  evals (TGeneral st r (pos + length cs)%nat acc (rev_append cs pend)
           (match cs with [] => ppos | _ => match pend with [] => pos | _ => ppos end end)) o ->
  evals (TGeneral st (cs ++ r) pos acc pend ppos) o.
Proof.
  induction cs as [|c cs IH]; intros r pos acc pend ppos o Hal H.
  - cbn in *. rewrite Nat.add_0_r in H. exact H.
  - cbn [forallb] in Hal. apply andb_prop in Hal as [Hc Hcs].
    cbn [app]. apply rule_char; [exact Hc|].
    apply IH; [exact Hcs|].
    cbn [rev_append length] in H. replace (S pos + length cs)%nat with (pos + S (length cs))%nat by lia.
    destruct cs; exact H.
Qed.

(* the round-trip simulation: mutual induction over the nested item type, done by size *)
Fixpoint isize (i : item) : nat := match i with Text _ => 1%nat | Grp b => S (fold_right (fun i n => (isize i + n)%nat) 0%nat b) end.
Definition lsize (l : list item) := fold_right (fun i n => (isize i + n)%nat) 0%nat l.

Lemma isize_pos i : (1 <= isize i)%nat. Proof. destruct i; cbn; lia. Qed.
Lemma lsize_cons i l : lsize (i :: l) = (isize i + lsize l)%nat. Proof. reflexivity. Qed.
Lemma isize_grp b : isize (Grp b) = S (lsize b). Proof. reflexivity. Qed.
Opaque isize.
Lemma items_sim : forall n l, (lsize l <= n)%nat -> forallb ok_item l = true ->
  forall st r pos c o,
  evals (TGeneral st r (pos + length (unparse l))%nat (c_acc (absorb pos c l)) (c_pend (absorb pos c l)) (c_ppos (absorb pos c l))) o ->
  evals (TGeneral st (unparse l ++ r) pos (c_acc c) (c_pend c) (c_ppos c)) o.
Proof.
  induction n as [|n IH]; intros l Hn Hok st r pos c o H.
  - destruct l as [|i l]; [cbn in *; rewrite Nat.add_0_r in H; exact H|].
    rewrite lsize_cons in Hn. pose proof (isize_pos i). lia.
  - destruct l as [|i l]; [cbn in *; rewrite Nat.add_0_r in H; exact H|].
    rewrite lsize_cons in Hn. pose proof (isize_pos i) as Hip.
    cbn [forallb] in Hok. apply andb_prop in Hok as [Hi Hl].
    unfold unparse in *. cbn [flat_map] in *. rewrite <- app_assoc.
    rewrite app_length in H. rewrite Nat.add_assoc in H.
    assert (Hl' : (lsize l <= n)%nat) by lia.
    cbn [absorb] in H.
    pose proof (IH l Hl' Hl st r (pos + length (unparse_item i))%nat (absorb_item pos c i) o H) as IHl.
    destruct i as [cs|b].
    + cbn [ok_item] in Hi. apply andb_prop in Hi as [Hne Hal].
      cbn [unparse_item] in *. apply text_sim; [exact Hal|].
      cbn [absorb_item c_acc c_pend c_ppos] in IHl.
      destruct cs; [cbn in Hne; discriminate|]. exact IHl.
    + rewrite absorb_item_grp in IHl. cbn [c_acc c_pend c_ppos] in IHl.
      cbn [unparse_item]. cbn [app]. rewrite <- app_assoc. cbn [app].
      cbn [ok_item] in Hi.
      assert (Hb : (lsize b <= n)%nat). { rewrite isize_grp in Hn. lia. }
      pose (c0 := {| c_acc := []; c_pend := []; c_ppos := 0%nat |}).
      eapply rule_group.
      * apply (IH b Hb Hi StopBrace (125 :: flat_map unparse_item l ++ r) (S pos) c0).
        apply rule_close.
      * cbn [unparse_item] in IHl. cbn [length] in IHl. rewrite app_length in IHl. cbn [length] in IHl.
        fold (unparse b) in *.
        replace (S (S pos + length (unparse b)))%nat with (pos + S (length (unparse b) + 1))%nat by lia.
        fold (cflush (absorb (S pos) c0 b)). exact IHl.
Qed.

Theorem parse_unparse : forall d, forallb ok_item d = true ->
  evals (TGeneral StopNone (unparse d) 0%nat [] [] 0%nat)
        (ONodes (rev (cflush (absorb 0%nat {| c_acc := []; c_pend := []; c_ppos := 0%nat |} d))) false [] (length (unparse d))).
Proof.
  intros d Hok. pose (c0 := {| c_acc := []; c_pend := []; c_ppos := 0%nat |}).
  rewrite <- (app_nil_r (unparse d)) at 1.
  apply (items_sim (lsize d) d (le_n _) Hok StopNone [] 0%nat c0).
  cbn [Nat.add]. fold c0.
  pose proof (rule_eof (c_acc (absorb 0 c0 d)) (c_pend (absorb 0 c0 d)) (c_ppos (absorb 0 c0 d)) (length (unparse d))) as E.
  rewrite Nat.add_0_r in E. unfold cflush.
  destruct (c_pend (absorb 0 c0 d)) eqn:Ep; exact E.
Qed.
Print Assumptions parse_unparse.
Eval vm_compute in (rev (cflush (absorb 0%nat {| c_acc := []; c_pend := []; c_ppos := 0%nat |} [Text [97;98]; Grp [Grp []; Text [99]]; Text [100]]))).
